#!/usr/bin/env python3
"""Regenerates MANIFEST.json from the table below (kept in one place so that it is always valid)."""
import json, os
HERE = os.path.dirname(os.path.abspath(__file__))
BASE_OFF = ("cd /repo && env -u GIN_CONFIG_VERIF /venv/bin/python -m pytest -ra -q -p no:cacheprovider "
            "--timeout=900 --continue-on-collection-errors")

CHECKS = {
  # id: (category, technique, level text, level note, design ref)
  'C08': ('model_checking',
          'TLA+ spec (SelectorMap.tla, GinCore spellings) model-checked with TLC; TLC behaviours replayed into the real code; recorded traces of the real code validated by TLC',
          'TLC explores the whole reachable state space of the suffix-tree map for small name universes against declarative suffix-resolution invariants; simulated behaviours are replayed step by step into gin.selector_map.SelectorMap comparing every read-only API answer, and random histories of the real object are accepted or rejected by TLC as behaviours of the spec.',
          'Trusted: TLC 1.8, CommunityModules Json/TLCExt, the adapter (public API only). Bounded name universes (<= 39 names, <= 3 handles).',
          'DESIGN.md section 6 C08'),
}
NOT_YET = {}

def main():
  props = [json.loads(l) for l in open(os.path.join(HERE, 'properties.jsonl'))]
  checks, na = [], []
  for p in props:
    pid = p['id']
    if pid in CHECKS:
      cat, tech, text, note, ref = CHECKS[pid]
      checks.append(dict(
        property_id=pid,
        quick_cmd='bin/check %s --tier quick' % pid,
        thorough_cmd='bin/check %s --tier thorough' % pid,
        evidence_file='/verif/evidence/%s.json' % pid,
        replay_cmd_template='bin/check %s --replay {path}' % pid,
        engine='tlc+ginverif',
        level_claimed=dict(category=cat, text=text, design_ref=ref),
        level_note=note,
        technique=tech))
    else:
      na.append(dict(property_id=pid, reason=NOT_YET.get(pid, 'check not built yet in this round (planned: see DESIGN.md section 6); not a claim that the technique cannot apply')))
  m = dict(
    version=1,
    setup_cmd='bin/setup',
    hooks=dict(guard='GIN_CONFIG_VERIF', enable='no source hooks: the harness observes gin through its public API and module globals from the harness process',
               baseline_off_cmd=BASE_OFF, source_commits=[], add_only=True),
    engines=[dict(name='tlc+ginverif', path='harness/ginverif', serves_properties=sorted(CHECKS),
                  kind_free_text='TLA+ specifications under spec/ checked by TLC; Python conformance harness (behaviour replay and trace validation) against gin imported from /repo')],
    checks=checks,
    not_applicable=na,
    notes='See DESIGN.md. Exit codes: 0 held, 1 VIOLATION, 2 machinery failure.')
  json.dump(m, open(os.path.join(HERE, 'MANIFEST.json'), 'w'), indent=1)
  print('wrote MANIFEST.json: %d checks, %d not_applicable' % (len(checks), len(na)))

if __name__ == '__main__':
  main()
