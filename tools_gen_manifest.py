#!/usr/bin/env python3
"""Regenerates MANIFEST.json from the table below (kept in one place so that it is always valid)."""
import json, os
HERE = os.path.dirname(os.path.abspath(__file__))
BASE_OFF = ("cd /repo && env -u GIN_CONFIG_VERIF /venv/bin/python -m pytest -ra -q -p no:cacheprovider "
            "--timeout=900 --continue-on-collection-errors")

CHECKS = {

  'C19': ('model_checking',
          'TLA+ spec GinDynReg.tla (symbol table, attribute chain, registration bookkeeping vs Python import semantics over a constant package tree) model-checked with TLC; TLC-built files written against a fresh real package tree and parsed by gin',
          'TLC checks for every file of up to 4 statements (import forms with colliding names, every spelling of an object reachable under two module paths, class / nested class / method / references, bad names, late enabling) that exactly the denoted object is configured, one configurable per object, and errors exactly where the file\'s own imports do not provide the name; simulated files are parsed by gin against a real temporary package (fresh module names per case), comparing error class, configured objects, behaviour through references, and - with a second file whose import collides - that config_str() re-parses to the same objects and is idempotent.',
          'Include structures between files are not in this model. Exhaustively exported families: an earlier file of the same process (what it registered, bound, imported and referred to stays), sibling packages with equal leaf module names, two imports binding one name, references (plain, scoped, to a nested class) made before / after methods of the class are configured; errors must name the line of the offending statement. Findings F11, F17, F21 (fixed).',
          'DESIGN.md section 6 C19'),

  'C18': ('model_checking',
          'TLA+ spec GinThreads.tla (wrapper / reader / singleton split at their shared accesses, two lock switches) model-checked with TLC over all interleavings incl. two expected-violation controls; real threads run under a deterministic line-granularity scheduler and their recorded access events are validated by TLC against the spec',
          'TLC explores every interleaving of 2-3 threads (calls in shared / distinct scopes, operative reads, first use of the same / different singletons) and shows that without either lock the properties fail; the same programs (and a 4-thread one) run as real threads under a seeded scheduler preempting at every line of gin/config.py and every lock / shared-dict operation; direct oracles judge each execution and TLC validates every recorded event sequence as a behaviour of the spec with all invariants evaluated on the states the real threads went through.',
          'Line-granularity schedules are sampled, not enumerated. The harness replaces gin\'s module-level locks and shared dicts by cooperative / recording ones for the duration of a run (no source hooks).',
          'DESIGN.md section 6 C18'),

  'C17': ('model_checking',
          'TLA+ spec GinExc.tla (propagation and message composition through nested wrapper frames, class descriptors, named deviations) model-checked with TLC incl. an expected-violation control; the predicate is observed on every builtin exception class and six user classes raised through real configurables',
          'TLC checks the intended design (same class, all attributes, traceback, one suffix per frame innermost first, pass-through of non-Exceptions) over nesting depth <= 3, six class descriptors and both raise sites, and shows that the recorded deviations violate C17_Attrs; the harness raises every builtin exception class constructible here plus user classes (required __init__ / __new__ arguments, __slots__, custom __str__, same-named reloaded classes) at depth 1-3 and observes class, MRO, every public attribute, traceback and message.',
          'The quantification over classes is an enumeration by the harness (every builtin exception class constructible in this interpreter plus user classes); each observation is additionally validated by TLC as a trace of GinExc. The former findings F13 / F14 are fixed (known_findings.json).',
          'DESIGN.md section 6 C17'),

  'C14': ('model_checking',
          'TLA+ spec GinParse.tla (streaming recursive parse vs fold over the flattened text; ordered file resolution) model-checked with TLC; TLC-exported file stores materialised on disk / in a memory reader and parsed by gin',
          'TLC checks for every store of up to 3 files x skip_unknown form x placement that the recursive streaming parse equals the fold over the flattened statements and that resolution is location-major, reader-minor; stores are materialised with poisoned files at every non-first placement and parsed by gin (applied statements, provenance, returned tree, errors, multi-file entry point).',
          'Statements rendered one per line (every other case with comment / blank lines between statements and block members, line numbers mapped). Readers: open(), gin\'s Python-path resource reader, a custom in-memory reader. Also modelled and replayed: the history of add_config_file_search_path calls (other orders, duplicates, the explicit current directory), eight argument forms of parse_config_files_and_bindings (C14_Entry), imports recorded per completed parse.',
          'DESIGN.md section 6 C14'),
  'C15': ('model_checking',
          'TLA+ spec GinParse.tla (C15_Reduced, C15_KnownApplied, C15_UnlistedStillError) model-checked with TLC; TLC-exported stores parsed by gin under every form of skip_unknown',
          'TLC checks that parsing with skip_unknown equals parsing the text with exactly the statements targeting unknown (listed) names and imports of missing modules deleted, over all stores within bounds and the forms False / True / list; stores are parsed by gin with list / tuple / set forms rotated.',
          'GinParse covers static registration (incl. names that match several configurables: known, never skipped, rejected); the dynamic-registration reading of "known" (resolvable through this file\'s own imports, whatever earlier files registered) is decided on GinDynReg in this check as well.',
          'DESIGN.md section 6 C15'),
  'C16': ('model_checking',
          'TLA+ spec GinParse.tla (prefix property, error class and location chain, provenance) model-checked with TLC; TLC-exported faulty stores parsed by gin',
          'TLC checks that a parse failing at any statement, for any modelled syntactic or semantic reason and at any include depth, leaves exactly the flattened prefix applied and reports one (file, line) per include level; faulty stores (12 concrete syntax / tokenizer error texts rotated) are parsed by gin comparing applied statements, provenance, error class, location chain, restored scope / lock / parse contexts and a follow-up parse.',
          'Every other case is rendered with comment / blank lines between statements and between block members (specification line numbers mapped to real ones); faults include tokenizer-level ones placed as the first token after a complete statement or block; failing files under dynamic registration (GinDynReg) are decided here too, incl. the line named by the error.',
          'DESIGN.md section 6 C16'),

  'C13': ('model_checking',
          'TLA+ spec GinRegister.tla (validation order of _make_configurable, method renaming, interactive mode; Predict table) model-checked with TLC; TLC behaviours replayed through the three real registration APIs; predicted observables enumerated over a shape universe',
          'TLC explores all sequences of up to 4 registration requests with interactive-mode and lock switches and checks atomicity of rejection, the interactive-mode rule and that the mode ends with its block; behaviours are replayed into gin comparing status and registry; the transparency clauses (identity, no injection into the original, metadata, subclassing, exact instance type, pickling) are predicted by the model per (API, kind, scoped) and observed on 16 callable / class shapes (incl. a function decorated before registration, a closed __new__ over a **kwargs mixin); every third world registers distinct-but-equal callables, every other request spells the full name as a dotted name.',
          'The object-model clauses are an enumeration by the harness over a fixed shape universe, not a TLC result (stated in DESIGN.md).',
          'DESIGN.md section 6 C13'),

  'C03': ('model_checking',
          'TLA+ spec GinStmt.tla (statement parser transcribed from config_parser.py: queue, lookahead, within-block flag, selector whitespace check, key splitting; token rendering of statement templates under layouts) model-checked with TLC; every TLC-built text rendered, tokenised by CPython and parsed by gin; CPython-tokenised random documents validated by TLC',
          'TLC checks for every text of up to 2-3 statements from 25 templates under every layout choice that the transcribed parser recovers exactly what the text spells (malformed selectors / statements rejected); each text is rendered with further layout freedom, its CPython token stream must equal the model\'s rendering (this binding already corrected the model twice: DEDENT placement, the // token), the real ConfigParser statement stream must equal the spelled statements and equal statements must give equal config_str across layouts; random richer documents go the other way through TLC.',
          'Oracle for tokens: CPython tokenize. Names are abstracted to three identifiers.',
          'DESIGN.md section 6 C03'),

  'C02': ('model_checking',
          'TLA+ spec GinSyntax.tla (cursor parser transcribed from config_parser.py vs split-based reference grammar) model-checked with TLC over all token strings up to a bound; TLC-exported token strings concretised and parsed by gin; CPython-tokenised generated texts validated by TLC against the spec parser',
          'TLC checks in every state (every token string up to length 4-6 over 7-18 token kinds) that the transcribed recursive-descent value parser accepts exactly the literal grammar with the grammar\'s unique value and is layout-invariant; all explored strings up to length 3 plus random strings up to length 7 are concretised (lexeme and layout pools) and parsed by the real gin, compared by outcome class, shape and exact equality with ast.literal_eval; generated literals to depth 3 and near-misses are tokenised by CPython and the real outcome validated by TLC.',
          'Oracle for lexemes and whole literals: CPython tokenize / ast.literal_eval. Token kinds abstract lexemes.',
          'DESIGN.md section 6 C02'),

  'C04': ('model_checking',
          'TLA+ spec GinCore.tla (recursive Eval / CallW vs declarative ExpEvals) model-checked with TLC incl. an expected-violation control; TLC behaviours replayed into gin with counting probes',
          'TLC checks that the evaluation log of every call equals one invocation per occurrence of an evaluated reference in Gin-supplied parameters (recursively, right scope) and none for caller-supplied ones; the pre-fix keyword-override behaviour is a control that must violate it; behaviours over nested containers are replayed into gin, result objects compared structurally, consumers mutate what they receive.',
          'Trusted: TLC, adapter. Reference graphs acyclic by construction; containers nested to depth 2.',
          'DESIGN.md section 6 C04'),
  'C05': ('model_checking',
          'TLA+ spec GinCore.tla (macros as scoped references, parse-time %name resolution, constants via suffix matching) model-checked with TLC; TLC behaviours replayed into gin through config text and gin.constant',
          'TLC checks late binding, constant identity, suffix resolution / ambiguity, duplicate definitions and finalize rejection over all orders of definitions and uses within bounds; behaviours are replayed through real config text.',
          'Trusted: TLC, adapter. Macro names simple identifiers; constant names to 3 components.',
          'DESIGN.md section 6 C05'),
  'C06': ('model_checking',
          'TLA+ spec GinCore.tla (abstract Serialize / minimal spelling resolution) model-checked with TLC; TLC behaviours replayed into gin, real config_str() text read back with gin\'s parser and re-parsed / re-serialised / permuted',
          'TLC checks at statement level that every emitted statement resolves back uniquely and that exactly the representable bindings are emitted, over registries with suffix-related names; the text level (wrapping, quoting, order, Markdown, round trip, idempotence, order independence) is decided on the real text for every replayed final state at several (width, indent) pairs with literal pools that stress quoting and numeric edge cases.',
          'Section ordering and text layout are not in the TLA+ model (TLC cannot order strings); they are checked against an independent oracle in the harness.',
          'DESIGN.md section 6 C06'),
  'C07': ('model_checking',
          'TLA+ spec GinCore.tla (operative record updates, C07_Step / C07_Sections / C07_Never) checked by TLC along simulated behaviours; TLC behaviours replayed into gin; operative_config_str() read back and the calls replayed from it',
          'TLC checks which parameters each call records and under which key; behaviours are replayed into gin comparing the record after every step, the printed text statement by statement, and (fixed configuration, representable values) clear + parse + repeat of the same calls.',
          'The model is too large for exhaustive search with the operative record in the state: TLC simulation (properties evaluated on every transition) is used and reported as such.',
          'DESIGN.md section 6 C07'),
  'C20': ('model_checking',
          'TLA+ spec GinCore.tla (Clear over bindings, calls, singletons, constants, finalize, unlock) checked by TLC along simulated behaviours; TLC behaviours replayed into gin with a fresh-world differential oracle',
          'TLC checks that Clear is always enabled and resets every store; behaviours with Clear are replayed into gin and the final world is compared with a fresh world that executed only what clear_config does not undo.',
          'Fresh world is in-process (same interpreter); TLC part is simulation.',
          'DESIGN.md section 6 C20'),

  'C01': ('model_checking',
          'TLA+ spec GinCore.tla (wrapper transcription vs declarative C01_Deliver) model-checked with TLC; TLC behaviours replayed into gin',
          'TLC checks, for every call split in every reachable (bindings, active scope) state of a signature family, that the step-by-step transcription of gin_wrapper delivers exactly the declarative per-parameter expectation; simulated behaviours over 144 signature shapes are replayed into the real gin comparing delivered arguments, *args, **kwargs, error class and the projected store / operative record / scope stack after every step.',
          'Trusted: TLC, adapter projection (module globals _CONFIG, _OPERATIVE_CONFIG, scope manager). Bounds: scope depth <= 3, <= 5 bindings, <= 2 positionals + 1 keyword-only.',
          'DESIGN.md section 6 C01'),
  'C09': ('model_checking',
          'TLA+ spec GinCore.tla scope stack (action properties C09_Compose / C09_Restore) model-checked with TLC; TLC behaviours replayed into gin',
          'TLC enumerates all sequences of scope entries (name, a/b, list, None, invalid) and exits (normal, exception) within the stack bound; behaviours mixing scopes, bindings and calls are replayed into gin comparing the whole stack after every step.',
          'Sequential half on GinCore; thread half on GinThreads with the deterministic scheduler (scopes and scope strings observed per thread after every step).',
          'DESIGN.md section 6 C09'),
  'C10': ('model_checking',
          'TLA+ spec GinCore.tla (C10_Required) model-checked with TLC; TLC behaviours replayed into gin',
          'TLC checks every placement of gin.REQUIRED (positional, keyword, **kwargs, signature default) against the declarative rule in every reachable store/scope state; behaviours are replayed into gin comparing delivered values, error class, the parsed missing-name list and whether the body ran.',
          'Trusted: TLC, adapter (parses the RuntimeError message for the name list).',
          'DESIGN.md section 6 C10'),
  'C11': ('model_checking',
          'TLA+ spec GinCore.tla (C11_Accept / C11_Atomic / C11_NeverInjected) model-checked with TLC; TLC behaviours replayed into gin through four binding API paths',
          'TLC checks acceptance, atomicity of rejection and non-injection over allow/deny/**kwargs configurables; behaviours are replayed through tuple keys, string keys, config text and blocks, comparing the projected store after every step.',
          'Trusted: TLC, adapter. Methods-via-class addressed in a later extension.',
          'DESIGN.md section 6 C11'),
  'C12': ('model_checking',
          'TLA+ spec GinCore.tla lock machine (action properties C12_*) model-checked with TLC; TLC behaviours replayed into gin with real finalize hooks',
          'TLC explores all histories of bind / finalize / nested unlock (normal and raising) / hook registration / register / clear within bounds; behaviours are replayed into gin with real hooks and raising unlock bodies.',
          'Trusted: TLC, adapter. finalize() is modelled at root scope only.',
          'DESIGN.md section 6 C12'),
  # id: (category, technique, level text, level note, design ref)
  'C08': ('model_checking',
          'TLA+ spec (SelectorMap.tla, GinCore spellings) model-checked with TLC; TLC behaviours replayed into the real code; recorded traces of the real code validated by TLC',
          'TLC explores the whole reachable state space of the suffix-tree map for small name universes against declarative suffix-resolution invariants; simulated behaviours are replayed step by step into gin.selector_map.SelectorMap comparing every read-only API answer, and random histories of the real object are accepted or rejected by TLC as behaviours of the spec.',
          'Trusted: TLC 1.8, CommunityModules Json/TLCExt, the adapter (public API only). Bounded name universes (<= 39 names, <= 3 handles).',
          'DESIGN.md section 6 C08'),
}
NOT_YET = {}

def main():
  props = [json.loads(l) for l in open(os.path.join(HERE, 'properties.jsonl'))]
  checks, na = [], []
  for p in props:
    pid = p['id']
    if pid in CHECKS:
      cat, tech, text, note, ref = CHECKS[pid]
      checks.append(dict(
        property_id=pid,
        quick_cmd='bin/check %s --tier quick' % pid,
        thorough_cmd='bin/check %s --tier thorough' % pid,
        evidence_file='/verif/evidence/%s.json' % pid,
        replay_cmd_template='bin/check %s --replay {path}' % pid,
        engine='tlc+ginverif',
        level_claimed=dict(category=cat, text=text, design_ref=ref),
        level_note=note,
        technique=tech))
    else:
      na.append(dict(property_id=pid, reason=NOT_YET.get(pid, 'check not built yet in this round (planned: see DESIGN.md section 6); not a claim that the technique cannot apply')))
  m = dict(
    version=1,
    setup_cmd='bin/setup',
    hooks=dict(guard='GIN_CONFIG_VERIF', enable='no source hooks: the harness observes gin through its public API and module globals from the harness process',
               baseline_off_cmd=BASE_OFF, source_commits=[], add_only=True),
    engines=[dict(name='tlc+ginverif', path='harness/ginverif', serves_properties=sorted(CHECKS),
                  kind_free_text='TLA+ specifications under spec/ checked by TLC; Python conformance harness (behaviour replay and trace validation) against gin imported from /repo')],
    checks=checks,
    not_applicable=na,
    notes='See DESIGN.md. Exit codes: 0 held, 1 VIOLATION, 2 machinery failure.')
  json.dump(m, open(os.path.join(HERE, 'MANIFEST.json'), 'w'), indent=1)
  print('wrote MANIFEST.json: %d checks, %d not_applicable' % (len(checks), len(na)))

if __name__ == '__main__':
  main()
