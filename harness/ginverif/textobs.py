"""Statement-level reading of config_str() / operative_config_str() text with the real parser."""
import re

from ginverif import core


class _Delegate:
  """Parser delegate that keeps references / macros symbolic."""

  def __init__(self, config_parser):
    self.base = config_parser.ParserDelegate

  def configurable_reference(self, scoped_name, evaluate):
    return ('@', scoped_name, bool(evaluate))

  def macro(self, name):
    return ('%', name)


def statements(text):
  """Parses config text into a list of plain tuples using gin's own ConfigParser."""
  core.import_gin()
  from gin import config_parser

  class D(config_parser.ParserDelegate):

    def configurable_reference(self, scoped_name, evaluate):
      return ('@', scoped_name, bool(evaluate))

    def macro(self, name):
      return ('%', name)

  out = []
  for st in config_parser.ConfigParser(text, D()):
    if isinstance(st, config_parser.BindingStatement):
      out.append(('bind', st.scope, st.selector, st.arg_name, st.value))
    elif isinstance(st, config_parser.ImportStatement):
      out.append(('import', st.module, st.is_from, st.alias))
    elif isinstance(st, config_parser.IncludeStatement):
      out.append(('include', st.filename))
    else:
      out.append(('block', st.scope, st.selector))
  return out


def sections(text):
  """The '# Parameters for X:' headers of a config string, with whether they are empty."""
  secs = []
  lines = text.split('\n')
  for i, l in enumerate(lines):
    m = re.match(r'# Parameters for (.*):$', l)
    if m:
      j = i + 2
      empty = j < len(lines) and lines[j].strip() == '# None.'
      secs.append((m.group(1), empty))
  return secs


def value_to_spec(world, v):
  """A value produced by `statements` -> specification value."""
  if isinstance(v, tuple) and len(v) == 3 and v[0] == '@':
    *scopes, sel = v[1].split('/')
    full = resolve(world, sel)
    return ['ref', full.split('.'), scopes, 'call' if v[2] else 'bare']
  if isinstance(v, tuple) and len(v) == 2 and v[0] == '%':
    return ['ref', ['gin', 'macro'], v[1].split('/'), 'call']
  from ginverif import adapter_core
  k = adapter_core._vkey(v)
  if k in world.lit_ids:
    return ['lit', world.lit_ids[k]]
  if isinstance(v, str):
    return ['lit', v]
  if isinstance(v, list):
    return ['list', [value_to_spec(world, x) for x in v]]
  if isinstance(v, tuple):
    return ['tuple', [value_to_spec(world, x) for x in v]]
  if isinstance(v, dict):
    return ['dict', [[value_to_spec(world, k), value_to_spec(world, x)] for k, x in v.items()]]
  return ['pyval', repr(v)]


def resolve(world, sel):
  c = world.config._REGISTRY.get_match(sel)
  return c.selector if c is not None else sel


def read(world, text):
  """dict(sections={(scope, fullsel)}, params={(scope, fullsel, param): spec value json}, macros={name: json})."""
  secs = set()
  for name, _ in sections(text):
    *scopes, sel = name.split('/')
    secs.add(('/'.join(scopes), resolve(world, sel)))
  params, macros = {}, {}
  for st in statements(text):
    if st[0] != 'bind':
      continue
    _, scope, sel, arg, val = st
    if not arg:
      macros[(scope + '/' if scope else '') + sel] = core.jdump(value_to_spec(world, val))
    else:
      params[(scope, resolve(world, sel), arg)] = core.jdump(value_to_spec(world, val))
  return dict(sections=secs, params=params, macros=macros)
