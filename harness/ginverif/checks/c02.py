"""C02 - literal values parse to exactly what Python evaluates them to."""
import json
import random
import re

from ginverif import adapter_syntax as S
from ginverif import core
from ginverif import tlc


def _cases_from(res):
  out = []
  for line in res.stdout.splitlines():
    if line.startswith('"[['):
      try:
        out.append(json.loads(json.loads(line)))
      except ValueError:
        pass
  return out


def _skip(toks, outcome):
  # '@True' / '%None': a NAME that is no registered configurable (delegate error, not a syntax matter)
  for a, b in zip(toks, toks[1:]):
    if a in ('@', '%') and b == 'k':
      return True
  return outcome[0] == 'ok' and _unhashable_key(outcome[1])


def _unhashable_key(v):
  t = v[0]
  if t == 'dict':
    return any(k[0] in ('list', 'dict') or _contains_unhashable(k) or _unhashable_key(x) for k, x in v[1])
  if t in ('list', 'tuple'):
    return any(_unhashable_key(x) for x in v[1])
  return False


def _contains_unhashable(v):
  t = v[0]
  if t in ('list', 'dict'):
    return True
  if t == 'tuple':
    return any(_contains_unhashable(x) for x in v[1])
  if t in ('ref', 'macro'):
    return False
  return False


def model_check(rep, tier):
  cfgs = ['MC_Value_quick', 'MC_Value_lists', 'MC_Value_dicts'] + (['MC_Value_thorough'] if tier == 'thorough' else [])
  for cfg in cfgs:
    res = tlc.run('GinSyntax', cfg + '.cfg', timeout=3400)
    rep.add_tlc(cfg, res, exhaustive=True)
    if res.violation or res.timed_out:
      raise tlc.TLCError('design-level violation / timeout of %s in %s:\n%s' % (res.violation, cfg, res.stdout[-3000:]))
  res = tlc.run('GinSyntax', 'MC_Value_control.cfg', workers=4, timeout=300)
  rep.extra['control_NoOneTuple_violates'] = res.violation
  if res.violation != 'NoOneTuple':
    raise tlc.TLCError('control failed: %r' % res.violation)


def spec_to_code(rep, tier):
  rng = random.Random(rep.seed * 31 + 7)
  runs = [('GinSyntax_Export_quick', dict(), 2 if tier == 'quick' else 6)]
  simn = 4000 if tier == 'quick' else 60000
  runs.append(('GinSyntax_Export_sim', dict(simulate=dict(num=simn // 7), depth=8, seed=rep.seed + 3), 1))
  for cfg, kw, k in runs:
    res = tlc.run('GinSyntax_Export', cfg + '.cfg', workers=1, timeout=1500, **kw)
    rep.add_tlc(cfg + '(export of token strings with the spec parser outcome)', res, exhaustive=not kw)
    cases = _cases_from(res)
    if len(cases) < 1000:
      raise tlc.TLCError('only %d cases exported by %s' % (len(cases), cfg))
    seen = set()
    for toks, outcome in cases:
      key = tuple(toks)
      if key in seen or not toks or _skip(toks, outcome):
        continue
      seen.add(key)
      for _ in range(k):
        text = S.concretise(toks, rng)
        rep.evaluations += 1
        rep.behaviours_replayed += 1
        if outcome[0] == 'ok' or len(toks) >= 2:
          rep.nontrivial_case(' '.join(toks))
        d = S.check_case(toks, outcome, text)
        if d:
          rep.violation(dict(kind='parser-divergence', clause=d['clause'], toks=' '.join(toks)),
                        dict(kind='syntax-case', toks=toks, outcome=outcome, text=text, divergence=d, prev=S.LAST_PREV[0]))
    rep.sample(dict(kind='token string exported by TLC, concretised and parsed by gin', toks=cases[len(cases) // 2][0],
                    spec_outcome=cases[len(cases) // 2][1]))


_TWINS = {'1': 'True', '0': 'False', 'True': '1', 'False': '0.0', '17': '17.0', '1e3': '1_000', '1_000': '1e3', '0.0': '0', '0x1F': '31.0',
          '0b11': '3.0', '3.': '0b11'}


def _type_twin(text):
  """The same literal with numbers / booleans replaced by equal values of another type (outside string literals)."""
  if "'" in text or '"' in text or '@' in text or '%' in text:
    return text
  return re.sub(r'(?<![\w.])(0x1F|0b11|1_000|1e3|17|0\.0|3\.|True|False|1|0)(?![\w.])', lambda m: _TWINS[m.group(1)], text)


def code_to_spec(rep, tier):
  rng = random.Random(rep.seed * 131 + 11)
  n = 1500 if tier == 'quick' else 20000
  gin, config = S.setup()
  texts = []
  for _ in range(n):
    t = S.gen_value(rng, rng.choice([1, 2, 2, 3]))
    texts.append(t)
    tw = _type_twin(t)
    if tw != t and rng.random() < 0.5:
      texts.append(tw)       # directly after t: an equal value of another type must replace it
    texts.append(S.near_miss(rng, t))
  cases = []
  for t in texts:
    kinds = S.abstract(t)
    kind, val = S.real_parse(t)
    rep.evaluations += 1
    if kind == 'other':
      # e.g. unhashable dict key: neither a literal nor a syntax error; outside the property's two classes
      rep.extra['skipped_other_errors'] = rep.extra.get('skipped_other_errors', 0) + 1
      continue
    if kind == 'ok':
      # Python's own evaluation of pure literals
      shp = S.shape(val, config)
      if '@' not in t and '%' not in t:
        import ast
        try:
          py = ast.literal_eval(t.strip())
          if not S.exact_equal(py, val):
            rep.violation(dict(kind='parser-divergence', clause='python-value'),
                          dict(kind='syntax-text', text=t, expected=repr(py)[:300], got=repr(val)[:300], prev=S.LAST_PREV[0]))
        except Exception as e:  # pylint: disable=broad-except
          rep.violation(dict(kind='parser-divergence', clause='accepted-non-literal'),
                        dict(kind='syntax-text', text=t, got=repr(val)[:300], python='%s: %s' % (type(e).__name__, e), prev=S.LAST_PREV[0]))
      cases.append([kinds, 'ok', _json_shape(shp), t, S.LAST_PREV[0]])
    else:
      cases.append([kinds, 'err', ['none'], t, S.LAST_PREV[0]])
    rep.nontrivial_case(t)
  batch = 4000
  for i in range(0, len(cases), batch):
    chunk = cases[i:i + batch]
    verdicts, res = _validate([c[:3] for c in chunk])
    rep.add_tlc('GinSyntax_Trace[%d:%d]' % (i, i + len(chunk)), res)
    for c, ok in zip(chunk, verdicts):
      rep.traces_validated += 1
      if not ok:
        rep.violation(dict(kind='trace-rejected', module='GinSyntax', real=c[1]),
                      dict(kind='syntax-trace', kinds=c[0], real_outcome=c[1], real_shape=c[2], text=c[3], prev=c[4]))
  rep.sample(dict(kind='generated text, tokenised by CPython, real outcome validated by TLC', text=cases[0][3],
                  kinds=cases[0][0], real=cases[0][1]))


def _json_shape(s):
  return s


def _validate(cases):
  import os, shutil
  wd = tlc.scratch()
  try:
    tf = os.path.join(wd, 'cases.json')
    with open(tf, 'w') as fh:
      json.dump(cases, fh)
    res = tlc.run('GinSyntax_Trace', 'GinSyntax_Trace.cfg', workers=1, env=dict(TRACE_FILE=tf), timeout=1500, workdir=wd)
    if res.violation:
      raise tlc.TLCError('trace run failed: %s\n%s' % (res.violation, res.stdout[-3000:]))
    v = {}
    for m in re.finditer(r'<<"CASE", (\d+), (TRUE|FALSE)>>', res.stdout):
      v[int(m.group(1))] = m.group(2) == 'TRUE'
    if len(v) != len(cases):
      raise tlc.TLCError('missing verdicts: %d of %d\n%s' % (len(v), len(cases), res.stdout[-2000:]))
    return [v[i + 1] for i in range(len(cases))], res
  finally:
    shutil.rmtree(wd, ignore_errors=True)


def run(tier):
  rep = core.Report('C02', tier)
  rep.rule = ('TLC checks in every state (= every token string up to the bound over 7-18 token kinds) that the '
              'transcribed cursor parser agrees with the split-based reference grammar (accepts iff in the grammar, same '
              'unique value, layout-invariant); every token string explored up to length 3 and a random sample up to '
              'length 7 is concretised with seeded lexemes and layouts and parsed by gin (outcome class, value shape, and '
              'exact type-and-repr equality with ast.literal_eval); generated literals (depth <= 3) and near-misses are '
              'tokenised by CPython, abstracted, and the real outcome validated by TLC against the spec parser; '
              'non-trivial = accepted strings and strings of >= 2 tokens / every generated text; distinct by token string / text')
  rep.assumptions = ["CPython's tokenize and ast.literal_eval as oracle for lexemes and whole literals",
                     "'@True'-like selectors and unhashable dict keys are outside the property's two classes and skipped"]
  model_check(rep, tier)
  spec_to_code(rep, tier)
  code_to_spec(rep, tier)
  return rep.finish()


def replay(path):
  with open(path) as fh:
    blob = json.load(fh)
  r = blob['replay']
  if r['kind'] == 'syntax-case':
    d = S.check_case(r['toks'], r['outcome'], r['text'], prev=r.get('prev') or '')
  elif r['kind'] == 'syntax-trace':
    kind, val = S.real_parse(r['text'], prev=r.get('prev') or '')
    _, config = S.setup()
    case = [S.abstract(r['text']), 'ok' if kind == 'ok' else 'err', S.shape(val, config) if kind == 'ok' else ['none']]
    ok, _ = _validate([case])
    d = None if ok[0] else dict(clause='trace-rejected', case=case)
  else:
    import ast
    kind, val = S.real_parse(r['text'], prev=r.get('prev') or '')
    try:
      same = kind == 'ok' and S.exact_equal(ast.literal_eval(r['text'].strip()), val)
    except Exception:  # pylint: disable=broad-except
      same = False
    d = None if same else dict(clause='python-value', got=[kind, repr(val)[:200]])
  print('divergence: %s' % json.dumps(d, default=str)[:1500] if d else 'conforms')
  if d:
    print('VIOLATION property=C02 replay=%s' % path)
  return 1 if d else 0
