"""C09 - config scopes nest, are restored on every exit path, and are private to a thread.

Sequential half here (GinCore: EnterScope / ExitScope / Call / Bind); the thread half is
ginverif.checks.c09_threads (GinThreads + deterministic scheduler) when present."""
from ginverif import core
from ginverif.checks import common_core as cc


def _nontrivial(st):
  o = st['out']
  if o.get('op') == 'ExitScope' and len(st['stack']) >= 2:
    return core.jdump(['exit', o['byException'], st['stack']])
  if o.get('op') == 'EnterScope' and (o['status'] != 'ok' or o['how'] in ('list', 'clear')) and len(st['stack']) >= 2:
    return core.jdump(['enter', o['how'], o['comps'], st['stack']])
  return None


def apalache_inductive(rep):
  """Symbolic strengthening: spec/apalache/ScopeStackInd.tla - IndInv holds initially and is preserved by every
  step from *arbitrary* (not only reachable) states with <= 5 open blocks; IndInv implies Restore."""
  import os, shutil, subprocess, time
  from ginverif import tlc
  src = os.path.join(tlc.SPEC_DIR, 'apalache', 'ScopeStackInd.tla')
  results = {}
  for name, args in (('init_implies_inv', ['--init=Init', '--inv=IndInv', '--length=0']),
                     ('inv_is_inductive', ['--init=IndInit', '--inv=IndInv', '--length=1']),
                     ('inv_implies_restore', ['--init=IndInit', '--inv=Restore', '--length=1'])):
    wd = tlc.scratch('ginverif_apa_')
    try:
      shutil.copy(src, wd)
      t0 = time.time()
      try:
        p = subprocess.run(['apalache-mc', 'check'] + args + ['--out-dir=' + os.path.join(wd, 'out'), 'ScopeStackInd.tla'],
                           cwd=wd, stdout=subprocess.PIPE, stderr=subprocess.STDOUT, text=True, timeout=240)
        out = p.stdout
      except (subprocess.TimeoutExpired, OSError) as e:
        out = 'not run: %s' % type(e).__name__
      verdict = 'OK' if 'EXITCODE: OK' in out else ('COUNTEREXAMPLE' if 'EXITCODE: ERROR (12)' in out else 'not discharged')
      results[name] = dict(verdict=verdict, wall_s=round(time.time() - t0, 1))
      if verdict == 'COUNTEREXAMPLE':
        raise tlc.TLCError('Apalache found a counterexample to %s:\n%s' % (name, out[-2000:]))
    finally:
      shutil.rmtree(wd, ignore_errors=True)
  rep.extra['apalache_inductive_scope_stack'] = results


def run(tier):
  rep = core.Report('C09', tier)
  rep.rule = ('TLC enumerates every sequence of scope entries (name, a/b shorthand, list, None/"", invalid) and '
              'exits (normal / by exception) up to the stack bound and checks composition and restoration as action '
              'properties; simulated behaviours mixing scope operations with bindings and calls are replayed into '
              'gin comparing the whole scope stack, current_scope() and what scoped calls receive after every step; '
              'non-trivial = an exit or a replacing / clearing / invalid entry at nesting depth >= 2')
  rep.assumptions = ['invalid scope arguments are drawn from a fixed pool (bad name, int, list with bad name, '
                     'object whose truth test raises, empty component, float)']
  cc.model_check(rep, 'MC_Scopes_quick')
  n = 200 if tier == 'quick' else 4000
  cc.replay_behaviours(rep, 'GinCore_Sim_scopes', num=n, depth=16, nontrivial=_nontrivial, generate=n * 6)
  apalache_inductive(rep)
  try:
    from ginverif.checks import c09_threads
    c09_threads.run_into(rep, tier)
  except ImportError:
    rep.assumptions.append('thread half not built yet')
  return rep.finish()


def replay(path):
  return cc.replay_file('C09', path)
