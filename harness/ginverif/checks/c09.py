"""C09 - config scopes nest, are restored on every exit path, and are private to a thread.

Sequential half here (GinCore: EnterScope / ExitScope / Call / Bind); the thread half is
ginverif.checks.c09_threads (GinThreads + deterministic scheduler) when present."""
from ginverif import core
from ginverif.checks import common_core as cc


def _nontrivial(st):
  o = st['out']
  if o.get('op') == 'ExitScope' and len(st['stack']) >= 2:
    return core.jdump(['exit', o['byException'], st['stack']])
  if o.get('op') == 'EnterScope' and (o['status'] != 'ok' or o['how'] in ('list', 'clear')) and len(st['stack']) >= 2:
    return core.jdump(['enter', o['how'], o['comps'], st['stack']])
  return None


def run(tier):
  rep = core.Report('C09', tier)
  rep.rule = ('TLC enumerates every sequence of scope entries (name, a/b shorthand, list, None/"", invalid) and '
              'exits (normal / by exception) up to the stack bound and checks composition and restoration as action '
              'properties; simulated behaviours mixing scope operations with bindings and calls are replayed into '
              'gin comparing the whole scope stack, current_scope() and what scoped calls receive after every step; '
              'non-trivial = an exit or a replacing / clearing / invalid entry at nesting depth >= 2')
  rep.assumptions = ['invalid scope arguments are drawn from a fixed pool (bad name, int, list with bad name, '
                     'object whose truth test raises, empty component, float)']
  cc.model_check(rep, 'MC_Scopes_quick')
  n = 200 if tier == 'quick' else 4000
  cc.replay_behaviours(rep, 'GinCore_Sim_scopes', num=n, depth=16, nontrivial=_nontrivial, generate=n * 6)
  cc.apalache_inductive(rep, 'ScopeStackInd', [('init_implies_inv', ['--init=Init', '--inv=IndInv', '--length=0']),
                                                ('inv_is_inductive', ['--init=IndInit', '--inv=IndInv', '--length=1']),
                                                ('inv_implies_restore', ['--init=IndInit', '--inv=Restore', '--length=1'])],
                        'apalache_inductive_scope_stack')
  try:
    from ginverif.checks import c09_threads
    c09_threads.run_into(rep, tier)
  except ImportError:
    rep.assumptions.append('thread half not built yet')
  return rep.finish()


def replay(path):
  return cc.replay_file('C09', path)
