"""C01 - injected arguments: caller's values over scope-layered bindings."""
from ginverif import core
from ginverif.checks import common_core as cc


def _nontrivial(st):
  """A call is non-trivial when the called configurable has bindings for one parameter at two
  different scope depths, or a caller-supplied parameter also has a binding."""
  o = st['out']
  if o.get('op') != 'Call':
    return None
  depths = {}
  for b in st['cfg']:
    if b['sel'] == o['sel']:
      depths.setdefault(b['param'], set()).add(len(b['scope']))
  supplied = set(k for k, _ in o['ckw'])
  layered = any(len(d) > 1 for d in depths.values())
  overridden = bool(supplied & set(depths)) or (len(o['pargs']) > 0 and bool(depths))
  if layered or overridden:
    return core.jdump([o['sel'], o['pargs'], o['ckw'], st['stack'][-1], sorted(core.jdump(b) for b in st['cfg'])])
  return None


def _history_keys(b):
  """Calls by what earlier calls of the same configurable did: a call must not depend on whether an earlier one (under
  the same scope, same bindings, possibly after finalize) supplied a bound parameter itself."""
  keys, seen = [], {}
  for st in b[1:]:
    o = st['out']
    if o['op'] == 'Bind' and o['status'] == 'ok':
      seen = {}
    if o['op'] != 'Call' or o['status'] != 'ok':
      continue
    bound = set(x['param'] for x in st['cfg'] if x['sel'] == o['sel'])
    k = (core.jdump(o['sel']), core.jdump(st['stack'][-1]))
    supplied = (set(n for n, _ in o['ckw']) | set(['<pos>'] if o['pargs'] else [])) & (bound | {'<pos>'})
    earlier = seen.get(k)
    if earlier is not None and earlier and not supplied and bound:
      keys.append(core.jdump(['call-after-overriding-call', st['locked'], o['sel'], sorted(earlier), sorted(bound)]))
    seen[k] = (earlier or set()) | supplied
  return keys


def run(tier):
  rep = core.Report('C01', tier)
  rep.rule = ('TLC checks C01_Deliver (delivered arguments = declarative per-parameter expectation) for every call '
              'split in every reachable (bindings, active scope) state of the signature family; simulated '
              'behaviours (Bind / EnterScope / ExitScope / Call over 144 signature shapes) are replayed into gin; '
              'non-trivial = a call where one parameter is bound at two scope depths or a caller-supplied '
              'parameter is also bound; distinct = distinct (call, scope, bindings)')
  rep.assumptions = ['probe configurables generated per signature shape; tuple binding keys']
  if tier == 'quick':
    cc.model_check(rep, 'MC_Inject_quick')
    cc.replay_behaviours(rep, 'GinCore_Sim_inject', num=250, nontrivial=_nontrivial, generate=2500, beh_keys=_history_keys)
  else:
    cc.model_check(rep, 'MC_Inject_quick')
    cc.model_check(rep, 'MC_Inject_thorough', timeout=3400)
    cc.replay_behaviours(rep, 'GinCore_Sim_inject', num=4000, nontrivial=_nontrivial, generate=16000, beh_keys=_history_keys)
  # calls after finalize, and calls after calls that overrode a binding themselves: a small model with only Bind /
  # Finalize / Call, so that these histories are frequent among its walks
  k = 100 if tier == 'quick' else 1500
  cc.replay_behaviours(rep, 'GinCore_Sim_lockedcalls', num=k, depth=9, nontrivial=_nontrivial, generate=k * 8, beh_keys=_history_keys, seed_off=41)
  cc.trace_validate(rep, 50 if tier == 'quick' else 600, seed_off=101)
  # the model's prediction "the registry's version injects" (GinRegister: Predict.registryInjects) over the shape universe
  # of the registration adapter: every callable / class shape (construction through __init__, __new__, both, inherited,
  # metaclass, slots, namedtuple, decorated, closed __new__ over a catch-all mixin ...) receives its binding through a
  # reference, a selector and the original object, scoped and unscoped
  # methods: bindings made (also under a scope) and calls made while the function was not yet a method of a registered
  # class still reach it afterwards (GinRegister: the entry is renamed, nothing else changes)
  from ginverif.checks import c11
  c11.methods_via_class(rep)
  from ginverif import adapter_register as R
  for shape in sorted(R.SHAPES):
    for api in ('external', 'register', 'configurable'):
      if api == 'configurable' and shape in ('class-with-registered-method', 'class-with-foreign-registered-attribute', 'builtin', 'callable-object'):
        continue      # gin.configurable is a decorator for one's own functions / classes
      for scoped in (False, True):
        rep.evaluations += 1
        rep.nontrivial_case('shape-injection/%s/%s/%s' % (shape, api, scoped))
        try:
          fails = R.transparency_case(shape, api, scoped, dict(returnsOriginal=False, originalUntouched=False, exactlyOriginalType=False,
                                                               picklesIfOriginal=False))
        except Exception as e:  # pylint: disable=broad-except
          fails = [('registryInjects', 'case raised %s: %s' % (type(e).__name__, e))]
        for clause, detail in fails:
          if clause == 'registryInjects':
            rep.violation(dict(kind='shape-injection', shape=shape, api=api, scoped=scoped),
                          dict(kind='shape-injection', shape=shape, api=api, scoped=scoped, detail=detail))
  return rep.finish()


def replay(path):
  return cc.replay_file('C01', path)
