"""C05 - macros and constants are late-bound named values."""
from ginverif import core
from ginverif.checks import common_core as cc


def _is_pct_ref(v):
  return isinstance(v, list) and len(v) == 4 and v[0] == 'ref' and v[1] in (['gin', 'macro'], ['gin', 'constant'])


def _nontrivial(st):
  o = st['out']
  op = o.get('op')
  if op == 'Call' and o['status'] == 'ok':
    uses = [b for b in st['cfg'] if b['sel'] == o['sel'] and ('gin' in core.jdump(b['val']))]
    if uses:
      return core.jdump(['use', o['sel'], o['pargs'], o['ckw'], [[e['sel'], e['scope']] for e in o['evals']],
                         sorted(core.jdump(b) for b in st['cfg']), sorted(core.jdump(k) for k in st['consts'])])
  if op == 'Bind' and o['val'][0] == 'pct':
    return core.jdump(['parse-pct', o['val'], o['status'], sorted(core.jdump(k['name']) for k in st['consts'])])
  if op == 'DefineConstant':
    return core.jdump(['const', o['name'], o['valid'], o['status'], st['interactive'],
                       sorted(core.jdump(k['name']) for k in st['consts'])])
  if op == 'Finalize':
    return core.jdump(['finalize', o['status'], sorted(core.jdump(b) for b in st['cfg'])])
  return None


def run(tier):
  rep = core.Report('C05', tier)
  rep.rule = ('TLC checks C05_Macros (a successful %name use delivers the value most recently bound to the macro, or '
              'the constant object itself), C05_Resolve (parse-time resolution to a constant iff unambiguous dotted '
              'suffix; ambiguous = error), C05_ConstDefine (duplicate / invalid definitions), C05_Finalize (unbound or '
              'unevaluated macros rejected) and C04_Refs (a macro bound to @g() re-evaluates g per use) over all '
              'orders of macro definitions, uses and constant definitions within the bounds; behaviours are replayed '
              'into gin through real config text and gin.constant; non-trivial = a call using %name, a %name parse, '
              'a constant definition, a finalize')
  cc.model_check(rep, 'MC_Macros_quick', timeout=1200)
  # finalize against every way of defining / referring to macros (explicit references, scope-like names), under two
  # concretisations (reference spellings)
  cc.replay_scenarios(rep, 'GinCore_Scen_macrofin', max_files=400 if tier == 'quick' else 3000, nontrivial=_nontrivial,
                      depth=5 if tier == 'quick' else 6, timeout=200, salts=(0, 1))
  cc.replay_scenarios(rep, 'GinCore_Scen_const', max_files=600 if tier == 'quick' else 4000, nontrivial=_nontrivial,
                      depth=5 if tier == 'quick' else 7, timeout=150 if tier == 'quick' else 900)
  n = 300 if tier == 'quick' else 4000
  cc.replay_behaviours(rep, 'GinCore_Sim_macros', num=n, depth=14, nontrivial=_nontrivial, generate=n * 6)
  return rep.finish()


def replay(path):
  return cc.replay_file('C05', path)
