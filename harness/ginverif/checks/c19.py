"""C19 - dynamic registration resolves names through the file's own imports."""
import json

from ginverif import adapter_dynreg as D
from ginverif import core
from ginverif import tlc


def _cases(res):
  out = []
  for line in res.stdout.splitlines():
    if line.startswith('"{'):
      try:
        out.append(json.loads(json.loads(line)))
      except ValueError:
        pass
  return out


def run(tier):
  rep = core.Report('C19', tier)
  rep.rule = ('TLC builds every file of up to 4 statements from 21 templates (six import forms incl. colliding bound names, a '
              'missing module and the reserved name gin; bindings through every spelling of a function reachable under two '
              'module paths, a class, a nested class, a method, references to a class, unknown first components and missing '
              'attributes; a late enabling statement) and checks that the transcribed symbol-table / attribute-chain / '
              'registration bookkeeping configures exactly the object Python\'s import semantics say the name denotes, one '
              'configurable per object, and raises exactly for names the file\'s own imports do not provide; simulated files of '
              'up to 6 statements are written against a fresh real package tree and parsed by gin (error class, configured '
              'objects, behaviour through references, then a second file with a colliding import name and the config_str '
              'round trip); non-trivial = files with at least one applied binding')
  res = tlc.run('MC_GinDynReg', 'MC_DynReg_quick.cfg' if tier == 'quick' else 'MC_DynReg_thorough.cfg', timeout=3000)
  rep.add_tlc('MC_DynReg_quick', res, exhaustive=True)
  if res.violation or res.timed_out:
    raise tlc.TLCError('design-level violation of %s\n%s' % (res.violation, res.stdout[-3000:]))
  n = 700 if tier == 'quick' else 8000
  ex = tlc.run('GinDynReg_Export', 'GinDynReg_Export.cfg', workers=1, simulate=dict(num=n), depth=7, seed=rep.seed + 4, timeout=1500)
  rep.add_tlc('GinDynReg_Export(simulate)', ex, exhaustive=False)
  cases = _cases(ex)
  seen, chosen = set(), []
  for c in cases:
    k = core.jdump([c['doc'], c['skip']])
    if k in seen or not c['doc']:
      continue
    seen.add(k)
    chosen.append(c)
  chosen.sort(key=lambda c: -len(c['cfg']))
  budget = 600 if tier == 'quick' else 8000
  for c in chosen[:budget]:
    rep.evaluations += 1
    rep.behaviours_replayed += 1
    if c['cfg']:
      rep.nontrivial_case(core.jdump(c['doc']))
    d = D.check(c)
    if d:
      rep.violation(dict(kind='dynreg-divergence', clause=d[0], status=c['status']),
                    dict(kind='dynreg-case', case=c, clause=d[0], expected=d[1], got=d[2]))
  if chosen:
    cc = D.Case()
    try:
      rep.sample(dict(kind='file built by TLC, written against a real package tree and parsed by gin', text=cc.text(chosen[0]['doc']),
                      spec_status=chosen[0]['status'], spec_cfg=chosen[0]['cfg']))
    finally:
      cc.close()
  return rep.finish()


def replay(path):
  with open(path) as fh:
    r = json.load(fh)['replay']
  d = D.check(r['case'])
  print('divergence: %s' % json.dumps(d, default=str)[:1500] if d else 'conforms')
  if d:
    print('VIOLATION property=C19 replay=%s' % path)
  return 1 if d else 0
