"""C19 - dynamic registration resolves names through the file's own imports."""
import json

from ginverif import adapter_dynreg as D
from ginverif import core
from ginverif import tlc
from ginverif.checks import common_dynreg


def _cases(res):
  out = []
  for line in res.stdout.splitlines():
    if line.startswith('"{'):
      try:
        out.append(json.loads(json.loads(line)))
      except ValueError:
        pass
  return out


def run(tier):
  rep = core.Report('C19', tier)
  rep.rule = ('TLC builds every file of up to 4 statements from 21 templates (six import forms incl. colliding bound names, a '
              'missing module and the reserved name gin; bindings through every spelling of a function reachable under two '
              'module paths, a class, a nested class, a method, references to a class, unknown first components and missing '
              'attributes; a late enabling statement) and checks that the transcribed symbol-table / attribute-chain / '
              'registration bookkeeping configures exactly the object Python\'s import semantics say the name denotes, one '
              'configurable per object, and raises exactly for names the file\'s own imports do not provide; simulated files of '
              'up to 6 statements are written against a fresh real package tree and parsed by gin (error class, configured '
              'objects, behaviour through references, then a second file with a colliding import name and the config_str '
              'round trip); non-trivial = files with at least one applied binding')
  common_dynreg.run_into(rep, tier, 'C19')
  return rep.finish()


def replay(path):
  return common_dynreg.replay('C19', path)
