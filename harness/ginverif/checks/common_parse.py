"""Shared by C14 / C15 / C16: GinParse.tla model check + replay of exported cases into gin."""
import json
import random

from ginverif import adapter_parse as P
from ginverif import core
from ginverif import tlc

FOCUS = {
    'C14': lambda c: any(s['t'] == 'include' for d in c['files'].values() for s in d),
    'C08': lambda c: any(s.get('sel') == 'h' or (s.get('val') or [None, None])[1] == 'h' for d in c['files'].values() for s in d),
    'C15': lambda c: c['skip']['mode'] != 'false' and any(s.get('sel') in ('u', 'w', 'h') or s.get('module') == 'gvmod_missing' or
                                                          (s.get('val') or [None, None])[1] in ('u', 'w', 'h')
                                                          for d in c['files'].values() for s in d),
    'C16': lambda c: c['result']['status'] != 'ok',
}
def _c14_score(c):
  """More includes first; a file reached twice (diamond / repeated include) most of all."""
  incs = [s['file'] for d in c['files'].values() for s in d if s['t'] == 'include']
  return len(incs) + 3 * (len(incs) - len(set(incs))) + (100 if c.get('family') == 'locs' else 0)


def _c16_score(c):
  """Deep location chains first; then faults that directly follow a complete block / binding in the same text."""
  after = sum(1 for d in c['files'].values() for a, b in zip(d, d[1:]) if b['t'] == 'syntax' and a['t'] in ('block', 'bind', 'macro'))
  return len(c['result']['chain']) + 2 * after


SCORE = {'C14': _c14_score, 'C15': lambda c: 0, 'C16': _c16_score, 'C08': lambda c: int(c['skip']['mode'] != 'false')}
CLAUSES = {
    'C14': ('applied-statements', 'returned-tree', 'status', 'entry-point', 'location-chain', 'provenance', 'recorded-imports'),
    'C15': ('applied-statements', 'status', 'returned-tree', 'recorded-imports', 'entry-point'),
    'C08': ('applied-statements', 'status'),
    'C16': ('applied-statements', 'status', 'location-chain', 'provenance', 'restored', 'later-parse-as-fresh', 'recorded-imports'),
}


ENTRY_BINDING = dict(t='bind', scope='', sel='g', param='p', val=['lit', 'from-bindings'], lines=1)


def _cases(res):
  out = []
  for line in res.stdout.splitlines():
    if line.startswith('"{'):
      try:
        out.append(json.loads(json.loads(line)))
      except ValueError:
        pass
  return out


def run(prop, tier, rule):
  rep = core.Report(prop, tier)
  rep.rule = rule
  rep.assumptions = ['statements are rendered one per line (layout freedom is C03\'s subject)',
                     'search locations are temporary directories; the second reader serves files from memory']
  run_into(rep, prop, tier)
  return rep.finish()


def run_into(rep, prop, tier, budget=None, only_focus=False):
  res = tlc.run('MC_GinParse', 'MC_Parse_quick.cfg' if tier == 'quick' else 'MC_Parse_thorough.cfg', timeout=3400)
  rep.add_tlc('MC_Parse', res, exhaustive=True)
  if res.violation or res.timed_out:
    raise tlc.TLCError('design-level violation / timeout: %s\n%s' % (res.violation, res.stdout[-3000:]))
  n = 3000 if tier == 'quick' else 20000
  ex = tlc.run('GinParse_Export', 'GinParse_Export.cfg', workers=1, simulate=dict(num=n), depth=7, seed=rep.seed + 2, timeout=1500)
  rep.add_tlc('GinParse_Export(simulate; every state printed with the specification result)', ex, exhaustive=False)
  cases = _cases(ex)
  if len(cases) < n:
    raise tlc.TLCError('only %d cases exported' % len(cases))
  if prop == 'C14':
    # the include-heavy family, exhaustively: overriding bindings around nested and repeated includes
    dx = tlc.run('GinParse_Export', 'GinParse_Export_diamond.cfg', workers=1, timeout=900)
    rep.add_tlc('GinParse_Export_diamond(every store of the include-heavy family, printed with the specification result)', dx, exhaustive=True)
    if dx.violation:
      raise tlc.TLCError('design-level violation in the diamond family: %s' % dx.violation)
    cases = _cases(dx) + cases
    # the location family: every registration history (other orders, a location registered twice, the current directory
    # registered explicitly) against placements where the order decides which file is read
    lx = tlc.run('GinParse_Export', 'GinParse_Export_locs.cfg', workers=1, timeout=900)
    rep.add_tlc('GinParse_Export_locs(every store x registration history x placement of the location family)', lx, exhaustive=True)
    if lx.violation:
      raise tlc.TLCError('design-level violation in the location family: %s' % lx.violation)
    lc = [c for c in _cases(lx) if any(s['t'] == 'include' for s in c['files']['root'])]
    for c in lc:
      c['family'] = 'locs'
    random.Random(rep.seed + 5).shuffle(lc)
    cases = lc[:250 if tier == 'quick' else 4000] + cases
  focus = FOCUS[prop]
  seen = set()
  chosen = []
  for c in cases:
    k = core.jdump([c['files'], c['skip'], c['present'], c.get('reglog')])
    if k in seen:
      continue
    seen.add(k)
    chosen.append((focus(c), c, SCORE[prop](c)))
  # focused cases first, then the rest, within the budget
  # focused cases first (deepest location chains first), then the rest, within the budget
  chosen.sort(key=lambda x: (not x[0], -x[2]))
  budget = budget or ((900 if tier == 'quick' else 12000) + (250 if prop == 'C14' else 0))
  if only_focus:
    chosen = [x for x in chosen if x[0]]
  try:
    for i, (foc, c, _) in enumerate(chosen[:budget]):
      rep.evaluations += 1
      if foc:
        rep.nontrivial_case(core.jdump([c['files'], c['skip'], c['present']]))
      obs = P.run_case(c, salt=i + rep.seed)
      d = P.compare(c, obs)
      ek = None
      if d is None and c.get('entries') and ((prop == 'C14' and (i % 2 == 0 or c.get('family') == 'locs')) or
                                             (prop == 'C15' and foc and any(b['val'][0] == 'unk' for b in c['result']['cfg']))):
        # the multi-file entry point, one argument form per case (all forms over the run)
        c['entry_binding'] = ENTRY_BINDING
        k = (i // 2) % len(c['entries'])
        if prop == 'C15':
          # the forms that finalize after several texts: a placeholder left by an earlier text must still be rejected
          k = [0, 4, 6][i % 3]
        d = P.run_entry(c, k, salt=i + rep.seed)
        ek = k
        rep.nontrivial_case(core.jdump(['entry', c['entries'][k]['form'], c['entries'][k]['result']['status'], c['entries'][k]['result']['locked']]))
      if d is not None and d[0] in CLAUSES[prop]:
        rep.violation(dict(kind='parse-divergence', clause=d[0], status=c['result']['status']),
                      dict(kind='parse-case', case=c, salt=i + rep.seed, clause=d[0], expected=d[1], got=d[2], entry=ek))
      rep.behaviours_replayed += 1
  finally:
    P.teardown()
  if prop == 'C15':
    # skip_unknown under dynamic registration (GinDynReg): "unknown" = not provided by this file's own imports, whatever
    # earlier files registered
    from ginverif.checks import common_dynreg
    common_dynreg.run_into(rep, tier, 'C15', focus=lambda c: c['skip']['mode'] != 'false',
                           budget=300 if tier == 'quick' else 4000, main_sim=500 if tier == 'quick' else 6000)
  if prop == 'C16':
    # failing files under dynamic registration: error class, what was applied, and the location of the offending statement
    from ginverif.checks import common_dynreg
    common_dynreg.run_into(rep, tier, 'C16', focus=lambda c: c['status'] != 'ok',
                           budget=250 if tier == 'quick' else 4000, main_sim=500 if tier == 'quick' else 6000)
  foc = [c for f, c, _ in chosen if f]
  if foc:
    c = foc[0]
    rep.sample(dict(kind='file store + skip_unknown form exported by TLC, materialised and parsed by gin',
                    root=P.render(c['files']['root'], 0), a=P.render(c['files']['a'], 0), skip=c['skip'], spec_result=c['result']['status']))


def replay(prop, path):
  with open(path) as fh:
    blob = json.load(fh)
  r = blob['replay']
  if r.get('kind') == 'dynreg-case':
    from ginverif.checks import common_dynreg
    return common_dynreg.replay(prop, path)
  try:
    if r.get('entry') is not None and r.get('clause') == 'entry-point':
      d = P.run_entry(r['case'], r['entry'], r['salt'])
    else:
      obs = P.run_case(r['case'], r['salt'])
      d = P.compare(r['case'], obs)
  finally:
    P.teardown()
  print('divergence: %s' % json.dumps(d, default=str)[:1500] if d else 'conforms')
  if d:
    print('VIOLATION property=%s replay=%s' % (prop, path))
  return 1 if d else 0
