"""Thread half of C09: scopes are private to a thread (GinThreads + scheduler)."""
from ginverif.checks import c18


def run_into(rep, tier):
  c18.run_into(rep, tier, 'C09')
