"""C15 - skip_unknown drops exactly the statements that target unknown names."""
from ginverif.checks import common_parse as cp

RULE = ('TLC checks C15_Reduced (parsing with skip_unknown = parsing the text with the statements targeting unknown, listed '
        'names and imports of missing modules deleted), C15_KnownApplied and C15_UnlistedStillError over all file stores within '
        'the bounds and the forms False / True / list; simulated stores are parsed by gin with the form rotated over list, tuple '
        'and set, comparing the applied statements (placeholders for unknown references included) and the error class; '
        'non-trivial = skip_unknown enabled and an unknown name or missing module present')


def run(tier):
  return cp.run('C15', tier, RULE)


def replay(path):
  return cp.replay('C15', path)
