"""C20 - clear_config returns the configuration to its pristine state."""
import json

from ginverif import adapter_core as A
from ginverif import core
from ginverif import tlc
from ginverif.checks import common_core as cc

PERSIST = ('Register', 'RegisterHook', 'SetInteractive', 'DefineConstant', 'EnterScope', 'ExitScope',
           'UnlockEnter', 'UnlockExit')
STATS = dict(differential_runs=0)


def _nontrivial(st):
  o = st['out']
  if o.get('op') == 'Clear':
    return core.jdump(['clear', o['clearConstants'], st['interactive'], len(st['usaved']), len(st['stack']),
                       sorted(core.jdump(k['name']) for k in st['consts'])])
  return None


def _beh_keys(b):
  """One key per Clear step: what kind of history preceded it."""
  ops = [st['out'] for st in b[1:]]
  keys = []
  for i, o in enumerate(ops):
    if o['op'] == 'Clear':
      hist = sorted(set((x['op'], x.get('api', ''), x.get('status')) for x in ops[:i]))
      keys.append(core.jdump(['clear-after', o['clearConstants'], hist, [x['op'] for x in ops[i + 1:i + 3]]]))
  return keys


def _const_keys(b):
  """One key per Clear step: the order in which the constants that exist were defined, and the mode."""
  keys, defs = [], []
  for st in b[1:]:
    o = st['out']
    if o['op'] == 'DefineConstant' and o['status'] == 'ok':
      defs.append(core.jdump(o['name']))
    if o['op'] == 'Clear':
      keys.append(core.jdump(['clear-consts', o['clearConstants'], st['interactive'], list(defs)]))
      if o['clearConstants']:
        defs = []
  return keys


def _observe(world):
  gin = world.gin
  obs = {}
  for name, fn in (('config_str', lambda: gin.config_str(show_provenance=True)),
                   ('operative_config_str', lambda: gin.operative_config_str(show_provenance=True)),
                   ('locked', gin.config_is_locked), ('scope', gin.current_scope)):
    try:
      obs[name] = fn()
    except Exception as e:  # pylint: disable=broad-except
      obs[name] = 'RAISED %s: %s' % (type(e).__name__, e)
  p = world.project()
  obs['state'] = {k: (sorted(map(str, v)) if isinstance(v, set) else ({str(a): b for a, b in v.items()} if isinstance(v, dict) else v))
                  for k, v in p.items()}
  calls = {}
  for sel in sorted(world.originals):
    world.call_log = []
    try:
      with gin.config_scope(None):
        world.call(sel, [], [])
      calls[sel] = [world.call_log[-1]['status']] + world.call_log[-1]['evals']
    except Exception as e:  # pylint: disable=broad-except
      calls[sel] = 'RAISED %s' % type(e).__name__
  obs['calls_with_defaults'] = calls
  # (like the observables above: an exception is an observation, compared between the two worlds - whether config_str may
  # raise at all is C06's subject, not C20's)
  for name, fn in (('operative_after_calls', lambda: gin.operative_config_str(show_provenance=True)),
                   ('config_after_calls', lambda: gin.config_str(show_provenance=True))):
    try:
      obs[name] = fn()
    except Exception as e:  # pylint: disable=broad-except
      obs[name] = 'RAISED %s: %s' % (type(e).__name__, e)
  return obs


def at_end(world, beh):
  """Differential oracle: the world after clear_config must be indistinguishable from a fresh world in which
  only the steps that clear_config does not undo (registrations, hooks, constants, interactive mode, open scopes /
  unlock blocks) and the steps after the clear were executed."""
  ops = [st['out'] for st in beh[1:]]
  clears = [i for i, o in enumerate(ops) if o['op'] == 'Clear' and o['status'] == 'ok']
  if not clears:
    return None
  last = clears[-1]
  # an unlock_config block that was entered before the clear restores, on exit, the lock state it saved on entry
  # (property C12) - a fresh process has no such block, so these histories are left to the step-by-step comparison
  depth = 0
  for o in ops[:last]:
    depth += (o['op'] == 'UnlockEnter') - (o['op'] == 'UnlockExit')
  if depth > 0:
    STATS['skipped_clear_inside_unlock_block'] = STATS.get('skipped_clear_inside_unlock_block', 0) + 1
    return None
  STATS['differential_runs'] += 1
  o1 = _observe(world)
  seed = world.pool_seed
  reg0 = beh[0]['reg']
  world.close()
  keep = []
  for i, o in enumerate(ops):
    if i > last:
      keep.append(o)
    elif i < last and o['op'] in PERSIST and o['status'] == 'ok':
      if o['op'] == 'DefineConstant' and any(ops[j]['clearConstants'] for j in clears if j > i):
        continue
      keep.append(o)
  fresh = A.World(reg0, pool_seed=seed)
  try:
    # literal ids must map to the same concrete values in both worlds
    fresh.lits, fresh.lit_ids, fresh.lit_pool = dict(world.lits), dict(world.lit_ids), list(world.lit_pool)
    fresh.nonlits = dict(world.nonlits)
    fresh.reserved = set(world.reserved)
    for o in keep:
      fresh.apply(o)
    o2 = _observe(fresh)
  finally:
    fresh.close()
  for k in o1:
    if o1[k] != o2[k]:
      return dict(step=len(beh), action='clear_config', clause='as-fresh.' + k, expected=o2[k], got=o1[k],
                  kept_steps=[x['op'] for x in keep])
  return None


def _replay(b, **kw):
  return A.replay(b, at_end=at_end, **kw)


def run(tier):
  rep = core.Report('C20', tier)
  rep.rule = ('TLC checks that Clear is enabled in every reachable state of a model with bindings, calls, singletons, '
              'constants (also interactive mode), finalize and unlock blocks, resets every store and keeps registry and '
              'constants; behaviours containing Clear are replayed into gin comparing the projected state after every '
              'step, and at the end the real world is compared (config strings with provenance, operative config, lock, '
              'default calls, provenance and import tables) with a fresh world that executed only what clear_config does '
              'not undo plus the steps after the clear; non-trivial = a Clear step, distinct by (clear_constants, '
              'interactive mode, open unlock blocks, open scopes, constant names)')
  n = 300 if tier == 'quick' else 3000
  res = tlc.run('MC_GinCore', 'MC_Clear_quick.cfg', simulate=dict(num=n), depth=14, seed=rep.seed + 5, workers=16, timeout=1500)
  rep.add_tlc('MC_Clear_quick(simulate, invariants and properties on every state / transition)', res, exhaustive=False)
  if res.violation:
    raise tlc.TLCError('design-level violation of %s:\n%s' % (res.violation, res.stdout[-3000:]))
  cc.replay_scenarios(rep, 'GinCore_Scen_clear', max_files=300 if tier == 'quick' else 3000, nontrivial=_nontrivial,
                      depth=5 if tier == 'quick' else 7, timeout=200 if tier == 'quick' else 1200, replay_fn=_replay)
  # constants defined in and out of interactive mode (one name shadowing another), then cleared: random walks of a
  # model with only these actions (the order of definition is not part of the specification's state, so a breadth-first
  # scenario export cannot tell the histories apart; walks can)
  kc = 60 if tier == 'quick' else 600
  cc.replay_behaviours(rep, 'GinCore_Sim_clearconst', num=kc, depth=9, nontrivial=_nontrivial, generate=kc * 6, replay_fn=_replay,
                       beh_keys=_const_keys, seed_off=31)
  k = 250 if tier == 'quick' else 4000
  cc.replay_behaviours(rep, 'GinCore_Sim_clear', num=k, depth=16, nontrivial=_nontrivial, generate=k * 8, replay_fn=_replay, beh_keys=_beh_keys)
  rep.extra.update(STATS)
  return rep.finish()


def replay(path):
  with open(path) as fh:
    blob = json.load(fh)
  d = _replay(blob['replay']['behaviour'])
  print('divergence: %s' % json.dumps(d, default=str)[:2000] if d else 'conforms')
  if d:
    print('VIOLATION property=C20 replay=%s' % path)
  return 1 if d else 0
