"""C16 - a failed parse applies exactly the preceding statements; errors say where."""
from ginverif.checks import common_parse as cp

RULE = ('TLC checks that a parse failing at any statement (syntax or tokenizer error, unknown configurable / parameter / '
        'reference, denylisted parameter, bad include, bad import, bad block member) at any include depth leaves exactly the '
        'flattened prefix applied, with the error class kept and one (file, line) per include level; simulated stores are parsed '
        'by gin comparing applied statements, provenance of every binding, error class, the location chain parsed from the '
        'message, restored scope / lock / parse-context depth and that a later parse behaves as fresh; non-trivial = a failing parse')


def run(tier):
  return cp.run('C16', tier, RULE)


def replay(path):
  return cp.replay('C16', path)
