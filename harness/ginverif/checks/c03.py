"""C03 - statements are recovered exactly, whatever the layout of the config text."""
import json
import os
import random
import re
import shutil

from ginverif import adapter_stmt as T
from ginverif import adapter_syntax as S
from ginverif import core
from ginverif import tlc


def _cases_from(res):
  out = []
  for line in res.stdout.splitlines():
    if line.startswith('"[['):
      try:
        out.append(json.loads(json.loads(line)))
      except ValueError:
        pass
  return out


def spec_to_code(rep, tier):
  rng = random.Random(rep.seed * 17 + 3)
  res = tlc.run('GinStmt_Export', 'GinStmt_Export_quick.cfg', workers=1, timeout=1500)
  rep.add_tlc('GinStmt_Export_quick(every text of <= 2 statements x layouts, with what it spells)', res, exhaustive=True)
  cases = _cases_from(res)
  if len(cases) < 2000:
    raise tlc.TLCError('only %d texts exported' % len(cases))
  if tier == 'quick':
    rng.shuffle(cases)
    cases = cases[:5000]
  gin, config = T.setup_probes()
  by_meaning = {}
  for toks, expected in cases:
    if not toks:
      continue
    k = 1 if tier == 'quick' else 3
    for _ in range(k):
      text = T.render(toks, rng)
      rep.evaluations += 1
      rep.behaviours_replayed += 1
      # (a) the token rendering is what CPython's tokenizer produces for the text
      got_toks = T.abstract(text)
      if got_toks != list(toks):
        rep.violation(dict(kind='tokenizer-model', clause='render-vs-tokenize'),
                      dict(kind='stmt-case', toks=toks, expected=expected, text=text, got_toks=got_toks))
        continue
      # (b) the real parser recovers exactly the statements the text spells
      want = T.spec_statements(expected)
      got = T.real_statements(text)
      if want != got:
        rep.violation(dict(kind='parser-divergence', clause='statements', first=(want[0]['t'] if want else None)),
                      dict(kind='stmt-case', toks=toks, expected=expected, text=text, got=got))
        continue
      if expected and expected[0]['t'] != 'err':
        rep.nontrivial_case(' '.join(toks))
      # (c) layouts of the same statements give the same configuration
      binds = [s for s in want if s['t'] == 'bind']
      if want and want[0]['t'] != 'err' and all(s['t'] in ('bind', 'block') for s in want) and _numeric_only(binds):
        key = core.jdump([b for b in binds])
        try:
          gin.clear_config()
          gin.parse_config(_numbers_fixed(text))
          cs = gin.config_str()
        except Exception as e:  # pylint: disable=broad-except
          cs = 'RAISED %s' % type(e).__name__
        finally:
          gin.clear_config()
        if key in by_meaning and by_meaning[key][0] != cs:
          rep.violation(dict(kind='layout-dependence', clause='same-statements-same-configuration'),
                        dict(kind='stmt-layouts', text_a=by_meaning[key][1], text_b=text, config_a=by_meaning[key][0], config_b=cs))
        by_meaning.setdefault(key, (cs, text))
  rep.extra['meanings_compared_across_layouts'] = len(by_meaning)
  rep.sample(dict(kind='text built by TLC, rendered, tokenised by CPython and parsed by gin', toks=cases[0][0],
                  text=T.render(cases[0][0], rng)))


def _numeric_only(binds):
  return all(b['val'] in (['numlike'], ['list', [['numlike'], ['numlike']]]) for b in binds)


def _numbers_fixed(text):
  """Same text with every number lexeme replaced by 7 (so that equal statements have equal values)."""
  out = []
  import io, tokenize
  toks = list(tokenize.generate_tokens(io.StringIO(text).readline))
  res, last = [], (1, 0)
  lines = text.splitlines(keepends=True)
  # rebuild by positions
  pos = 0
  offs = [0]
  for l in lines:
    offs.append(offs[-1] + len(l))
  for tok in toks:
    if tok.type == tokenize.NUMBER:
      a = offs[tok.start[0] - 1] + tok.start[1]
      b = offs[tok.end[0] - 1] + tok.end[1]
      res.append((a, b))
  s = text
  for a, b in reversed(res):
    s = s[:a] + '7' + s[b:]
  return s


def code_to_spec(rep, tier):
  rng = random.Random(rep.seed * 97 + 13)
  n = 1500 if tier == 'quick' else 20000
  cases = []
  for _ in range(n):
    text = T.gen_doc(rng)
    kinds = T.abstract(text)
    stm = T.real_statements(text)
    rep.evaluations += 1
    cases.append([kinds, stm, text])
    rep.nontrivial_case(text)
  batch = 3000
  for i in range(0, len(cases), batch):
    chunk = cases[i:i + batch]
    verdicts, res = _validate([c[:2] for c in chunk])
    rep.add_tlc('GinStmt_Trace[%d:%d]' % (i, i + len(chunk)), res)
    for c, ok in zip(chunk, verdicts):
      rep.traces_validated += 1
      if not ok:
        rep.violation(dict(kind='trace-rejected', module='GinStmt', real=c[1][0]['t'] if c[1] else 'empty'),
                      dict(kind='stmt-trace', kinds=c[0], real=c[1], text=c[2]))
  rep.sample(dict(kind='generated config text; real statement stream validated by TLC', text=cases[1][2], real=cases[1][1]))


def _validate(cases):
  wd = tlc.scratch()
  try:
    tf = os.path.join(wd, 'cases.json')
    with open(tf, 'w') as fh:
      json.dump(cases, fh)
    res = tlc.run('GinStmt_Trace', 'GinStmt_Trace.cfg', workers=1, env=dict(TRACE_FILE=tf), timeout=1500, workdir=wd)
    if res.violation:
      raise tlc.TLCError('trace run failed: %s\n%s' % (res.violation, res.stdout[-3000:]))
    v = {}
    for m in re.finditer(r'<<"CASE", (\d+), (TRUE|FALSE)>>', res.stdout):
      v[int(m.group(1))] = m.group(2) == 'TRUE'
    if len(v) != len(cases):
      raise tlc.TLCError('missing verdicts: %d of %d\n%s' % (len(v), len(cases), res.stdout[-2000:]))
    return [v[i + 1] for i in range(len(cases))], res
  finally:
    shutil.rmtree(wd, ignore_errors=True)


def run(tier):
  rep = core.Report('C03', tier)
  rep.rule = ('TLC builds every config text of up to 2-3 statements from 11 well-formed and 14 malformed statement '
              'templates under every layout choice (leading blank / comment lines, trailing comments, flat vs block form, '
              'comment after a block header, lines inside a block) and checks that the transcribed statement parser (queue, '
              'lookahead, within-block flag, selector whitespace check, key splitting) recovers exactly what the text spells '
              'or rejects it; every such text is rendered (more layout freedom: spacing, continuations, indent width, final '
              'newline), its CPython token stream compared with the specification\'s rendering, parsed by gin\'s ConfigParser '
              '(statement streams compared) and by parse_config (same statements => same config_str across layouts); random '
              'richer documents are tokenised by CPython and the real statement stream validated by TLC; non-trivial = '
              'well-formed texts / all generated documents')
  res = tlc.run('MC_GinStmt', 'MC_Stmt_quick.cfg' if tier == 'quick' else 'MC_Stmt_thorough.cfg', timeout=3400)
  rep.add_tlc('MC_Stmt', res, exhaustive=True)
  if res.violation or res.timed_out:
    raise tlc.TLCError('design-level violation of %s:\n%s' % (res.violation, res.stdout[-3000:]))
  spec_to_code(rep, tier)
  code_to_spec(rep, tier)
  return rep.finish()


def replay(path):
  with open(path) as fh:
    blob = json.load(fh)
  r = blob['replay']
  if r['kind'] == 'stmt-case':
    want = T.spec_statements(r['expected'])
    got = T.real_statements(r['text'])
    bad = want != got or T.abstract(r['text']) != list(r['toks'])
  elif r['kind'] == 'stmt-trace':
    ok, _ = _validate([[T.abstract(r['text']), T.real_statements(r['text'])]])
    bad = not ok[0]
  else:
    bad = True
  print('diverges' if bad else 'conforms')
  if bad:
    print('VIOLATION property=C03 replay=%s' % path)
  return 1 if bad else 0
