"""C14 - includes act as in-place inclusion; files resolve through ordered locations."""
from ginverif.checks import common_parse as cp

RULE = ('TLC checks for every file store of up to 3 files (root -> a -> b; up to 2-3 statements per file from 19 statement '
        'templates including includes of existing and missing files) x skip_unknown form x file placement that the streaming, '
        'recursive parse equals the fold over the flattened statement sequence (state, provenance, error class, location chain) '
        'and that the file read is the first in (location-major, reader-minor) order; simulated file stores are materialised '
        '(disk directories as locations, an in-memory second reader, poisoned files at every non-first placement) and parsed by '
        'gin, comparing applied statements, provenance, returned include tree, error and location chain, plus the multi-file '
        'entry point; non-trivial = a store with at least one include')


def run(tier):
  return cp.run('C14', tier, RULE)


def replay(path):
  return cp.replay('C14', path)
