"""C10 - REQUIRED parameters are filled from the config or the call fails cleanly."""
from ginverif import core
from ginverif.checks import common_core as cc


def _nontrivial(st):
  o = st['out']
  if o.get('op') != 'Call':
    return None
  req = any(v == ['req'] for v in o['pargs']) or any(v == ['req'] for _, v in o['ckw'])
  sigreq = any(d[1] == ['req'] for c in st['reg'] if c['sel'] == o['sel'] for d in c['dflt'])
  if req or sigreq:
    return core.jdump([o['sel'], o['pargs'], o['ckw'], o['status'], o['missing'], st['stack'][-1],
                       sorted(core.jdump(b) for b in st['cfg'])])
  return None


def run(tier):
  rep = core.Report('C10', tier)
  rep.rule = ('TLC checks C10_Required for every placement of gin.REQUIRED among positional, keyword, **kwargs '
              'and signature-default parameters in every reachable (bindings, scope) state; simulated behaviours with '
              'REQUIRED-bearing calls are replayed into gin comparing delivered arguments, error class, the parsed '
              'list of missing names and whether the body ran; non-trivial = a call involving at least one REQUIRED '
              'marker (caller- or signature-level)')
  cc.model_check(rep, 'MC_Required_quick' if tier == 'quick' else 'MC_Required_thorough', timeout=3400)
  n = 200 if tier == 'quick' else 4000
  cc.replay_behaviours(rep, 'GinCore_Sim_required', num=n, nontrivial=_nontrivial, generate=n * 6)
  cc.trace_validate(rep, 50 if tier == 'quick' else 600, seed_off=110)
  return rep.finish()


def replay(path):
  return cc.replay_file('C10', path)
