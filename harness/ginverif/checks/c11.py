"""C11 - only configurable parameters of registered configurables can ever be bound."""
from ginverif import core
from ginverif.checks import common_core as cc


def _nontrivial(st):
  o = st['out']
  if o.get('op') == 'Bind' and o['status'] != 'ok':
    return core.jdump(['rejected', o['api'], o['sel'], o['param'], o['why'], len(st['cfg'])])
  if o.get('op') == 'Bind' and o['param'] == 'z':
    return core.jdump(['kwargs-name', o['api'], o['sel']])
  return None


def run(tier):
  rep = core.Report('C11', tier)
  rep.rule = ('TLC checks acceptance = (signature can take it, inside allowlist, outside denylist), atomicity of '
              'rejected bindings and that non-configurable parameters are never injected, over configurables with '
              'allow / deny lists and **kwargs; simulated behaviours are replayed through four binding API paths '
              '(tuple key, string key, config text, block) comparing accept/reject, error class and the whole '
              'projected store after each step; non-trivial = a rejected binding or a **kwargs-only name')
  cc.model_check(rep, 'MC_BindValidation_quick')
  n = 200 if tier == 'quick' else 4000
  cc.replay_behaviours(rep, 'GinCore_Sim_bindval', num=n, nontrivial=_nontrivial, generate=n * 6)
  return rep.finish()


def replay(path):
  return cc.replay_file('C11', path)
