"""C11 - only configurable parameters of registered configurables can ever be bound."""
from ginverif import core
from ginverif.checks import common_core as cc


def _nontrivial(st):
  o = st['out']
  if o.get('op') == 'Bind' and o['status'] != 'ok':
    return core.jdump(['rejected', o['api'], o['sel'], o['param'], o['why'], len(st['cfg'])])
  if o.get('op') == 'Bind' and o['param'] == 'z':
    return core.jdump(['kwargs-name', o['api'], o['sel']])
  return None


_WORLDS = [0]


def methods_via_class(rep):
  """A method registered on a registered class is addressable only through its class name: the GinRegister
  behaviour (register the method, then its class: the method entry is renamed to Class.method) observed through
  every binding path."""
  from ginverif import adapter_register as R
  for api in ('external', 'register') * 3:        # three worlds per API: the method's real name rotates
    w = R.RegWorld()
    try:
      gin = w.gin
      base = dict(nameValid=True, moduleValid=True, bothLists=False, listNotSequence=False, unknownListName=False)
      assert w.register(dict(base, sel='m.meth', obj='meth', method='none', methodName=''), 'register') == 'ok'
      pre = w.prefix
      mn = w.mname
      early = _WORLDS[0] % 2 == 1
      _WORLDS[0] += 1
      if early:
        # while its class is not registered the function is an ordinary configurable and may be bound by its own name;
        # registering the class turns it into a method: the binding follows it to Class.method, the bare name dies
        gin.bind_parameter(mn + '.x', 3)
        gin.bind_parameter(('sc', mn, 'x'), 4)                   # ... also under a scope
        if _WORLDS[0] % 4 == 2:
          gin.get_configurable(w.objs['meth'])(object())          # ... and it may have been called already
      assert w.register(dict(base, sel='m.K', obj='K', method='m.meth', methodName='meth'), api) == 'ok'
      if early:
        rep.evaluations += 1
        rep.nontrivial_case('method-addressing/bound-before-class/%s' % api)
        try:
          inst = gin.get_configurable(w.objs['K'])()
          with gin.config_scope('sc'):
            scoped = getattr(inst, mn)()
          got = (gin.query_parameter('K.' + mn + '.x'), getattr(inst, mn)(), scoped, bool(gin.config_str()))
        except Exception as e:  # pylint: disable=broad-except
          got = '%s: %s' % (type(e).__name__, e)
        if got != (3, 3, 4, True):
          rep.violation(dict(kind='method-addressing', clause='binding-follows-the-method'),
                        dict(kind='method-addressing', api=api, expected=[3, 3, 4, True], got=got))
          gin.clear_config()
          continue
      paths = {
          'string': lambda key: gin.bind_parameter(key + '.x', 5),
          'tuple': lambda key: gin.bind_parameter(('', key, 'x'), 5),
          'text': lambda key: gin.parse_config(key + '.x = 5'),
          'block': lambda key: gin.parse_config(key + ':\n  x = 5\n'),
          'query': lambda key: gin.query_parameter(key + '.x'),
      }
      gin.bind_parameter(pre + '.K.' + mn + '.x', 1)
      for how, fn in paths.items():
        for key, want in ((mn, 'ValueError'), (pre + '.' + mn, 'ValueError'), ('K.' + mn, 'ok'), (pre + '.K.' + mn, 'ok')):
          rep.evaluations += 1
          rep.nontrivial_case('method-addressing/%s/%s/%s' % (api, how, key.replace(pre, 'm')))
          key_s = key.replace(pre, 'm')
          try:
            before = gin.config_str()
          except Exception as e:  # pylint: disable=broad-except
            rep.violation(dict(kind='method-addressing', clause='config-str-returns'),
                          dict(kind='method-addressing', api=api, got='%s: %s' % (type(e).__name__, e)))
            break
          try:
            fn(key)
            got = 'ok'
          except (ValueError, KeyError) as e:
            got = type(e).__name__
          if got != want:
            rep.violation(dict(kind='method-addressing', path=how, key=key.replace(pre, 'm'), expected=want),
                          dict(kind='method-addressing', api=api, path=how, key=key, expected=want, got=got))
          elif want != 'ok' and gin.config_str() != before:
            rep.violation(dict(kind='method-addressing', path=how, clause='rejected-binding-changed-config'),
                          dict(kind='method-addressing', api=api, path=how, key=key))
      # the binding reaches the method of instances built by the configurable class
      inst = gin.get_configurable(w.objs['K'])()
      if getattr(inst, mn)() != 5:
        rep.violation(dict(kind='method-addressing', clause='injected-through-class'),
                      dict(kind='method-addressing', api=api, got=getattr(inst, mn)()))
      gin.clear_config()
    finally:
      w.close()


def unknown_parameters_over_shapes(rep):
  """MightHave (GinCore: `c.vk \\/ p \\in NamedParams(c)`) over the shape universe of the registration adapter: a name the
  construction signature cannot take is rejected on every binding path - whatever base classes, metaclasses or
  decorators surround that signature."""
  from ginverif import adapter_register as R
  for shape in sorted(R.SHAPES):
    if shape in R.TAKES_ANY_NAME or shape.startswith('class-with-'):
      continue
    for api in ('external', 'register'):
      rep.evaluations += 1
      rep.nontrivial_case('unknown-parameter/%s/%s' % (shape, api))
      try:
        bad = R.unknown_parameter_case(shape, api)
      except Exception as e:  # pylint: disable=broad-except
        bad = [('case-raised', '%s: %s' % (type(e).__name__, e))]
      for how, got in bad:
        rep.violation(dict(kind='unknown-parameter', shape=shape, path=how),
                      dict(kind='unknown-parameter', shape=shape, api=api, path=how, got=got))


def run(tier):
  rep = core.Report('C11', tier)
  rep.rule = ('TLC checks acceptance = (signature can take it, inside allowlist, outside denylist), atomicity of '
              'rejected bindings and that non-configurable parameters are never injected, over configurables with '
              'allow / deny lists and **kwargs; simulated behaviours are replayed through four binding API paths '
              '(tuple key, string key, config text, block) comparing accept/reject, error class and the whole '
              'projected store after each step; non-trivial = a rejected binding or a **kwargs-only name')
  cc.model_check(rep, 'MC_BindValidation_quick')
  n = 200 if tier == 'quick' else 4000
  cc.replay_behaviours(rep, 'GinCore_Sim_bindval', num=n, nontrivial=_nontrivial, generate=n * 6)
  methods_via_class(rep)
  unknown_parameters_over_shapes(rep)
  return rep.finish()


def replay(path):
  return cc.replay_file('C11', path)
