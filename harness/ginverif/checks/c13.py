"""C13 - registration is transparent to the registered function or class."""
import json

from ginverif import adapter_register as R
from ginverif import core
from ginverif import tlc


def run(tier):
  rep = core.Report('C13', tier)
  rep.rule = ('TLC explores every sequence of up to 4 registration requests (valid, different object under an existing '
              'name, invalid name / module, both lists, non-sequence list, unknown list name, a method then its class) '
              'interleaved with interactive-mode and lock switches and checks atomicity of rejection, that re-registration '
              'needs interactive mode and that the mode ends with its block; simulated behaviours are replayed through the '
              'three real APIs comparing status and the registry after each step; the observable consequences the model '
              'predicts per (API, kind, scoped) are observed on 14 callable / class shapes; non-trivial = a rejected or '
              're-registering request in a behaviour, and every (shape, API, scoped) case')
  rep.assumptions = ['object-model facts (type identity, pickling, metadata) are predicted by the model and observed by '
                     'enumeration over a fixed shape universe - not decided by TLC']
  res = tlc.run('MC_GinRegister', 'MC_Register_quick.cfg', workers=8, timeout=900)
  rep.add_tlc('MC_Register_quick', res, exhaustive=True)
  if res.violation:
    raise tlc.TLCError('design-level violation of %s\n%s' % (res.violation, res.stdout[-3000:]))
  predict = None
  for line in res.stdout.splitlines():
    if line.startswith('"[\\"PREDICT'):
      predict = json.loads(json.loads(line))[1]
  if predict is None:
    raise tlc.TLCError('prediction table not printed by TLC')
  n = 300 if tier == 'quick' else 3000
  behs, sres = tlc.export_behaviours('GinRegister_Sim', 'GinRegister_Sim.cfg', num=n, depth=7, seed=rep.seed + 1)
  rep.add_tlc('GinRegister_Sim(simulate,export)', sres, exhaustive=False)
  for b in behs:
    rep.behaviours_replayed += 1
    rep.evaluations += len(b) - 1
    for st in b[1:]:
      o = st['out']
      if o['op'] in ('Register', 'InteractiveBlock') and (o['status'] != 'ok' or any(e['sel'] == o['req']['sel'] for e in b[0]['reg'])):
        rep.nontrivial_case(core.jdump([o['op'], o['req']['tag'], o['status'], st['interactive'], st['locked']]))
    d = R.replay(b)
    if d:
      rep.violation(dict(kind='replay-divergence', module='GinRegister', clause=d['clause'], action=d['action']),
                    dict(kind='reg-behaviour', divergence=d, behaviour=b))
  rep.sample(dict(kind='registration behaviour replayed', steps=[[s['out']['op'], s['out'].get('req', {}).get('tag'), s['out'].get('status')] for s in behs[0][1:]]))
  # predicted observables over the shape universe
  cases = 0
  for shape, (kind, _) in sorted(R.SHAPES.items()):
    for api in ('configurable', 'external', 'register'):
      for scoped in (False, True):
        p = predict[api][kind][1 if scoped else 0]
        if shape in ('class-with-registered-method', 'class-with-foreign-registered-attribute', 'builtin', 'callable-object') and api == 'configurable':
          continue      # gin.configurable is a decorator for one's own functions / classes
        try:
          fails = R.transparency_case(shape, api, scoped, p)
        except Exception as e:  # pylint: disable=broad-except
          fails = [('case-raised', '%s: %s' % (type(e).__name__, e))]
        cases += 1
        rep.evaluations += 1
        rep.nontrivial_case('%s/%s/%s' % (shape, api, scoped))
        for clause, detail in fails:
          rep.violation(dict(kind='transparency', clause=clause, shape=shape, api=api, scoped=scoped),
                        dict(kind='transparency-case', shape=shape, api=api, scoped=scoped, clause=clause, detail=detail, predict=p))
  rep.extra['transparency_cases'] = cases
  rep.sample(dict(kind='transparency case', shape='class-slots', api='external', scoped=True))
  return rep.finish()


def replay(path):
  with open(path) as fh:
    blob = json.load(fh)
  r = blob['replay']
  if r['kind'] == 'reg-behaviour':
    d = R.replay(r['behaviour'])
    bad = d is not None
  else:
    bad = bool(R.transparency_case(r['shape'], r['api'], r['scoped'], r['predict']))
  print('diverges' if bad else 'conforms')
  if bad:
    print('VIOLATION property=C13 replay=%s' % path)
  return 1 if bad else 0
