"""Shared by C19 / C15: GinDynReg.tla model check + replay of exported files into gin against a real package tree."""
import json

from ginverif import adapter_dynreg as D
from ginverif import core
from ginverif import tlc


def _cases(res):
  out = []
  for line in res.stdout.splitlines():
    if line.startswith('"{'):
      try:
        out.append(json.loads(json.loads(line)))
      except ValueError:
        pass
  return out


def run_into(rep, tier, prop, focus=None, budget=None, main_sim=None):
  """Model-checks GinDynReg (main family and the history family) and replays exported files into gin."""
  for cfg in (['MC_DynReg_quick.cfg' if tier == 'quick' else 'MC_DynReg_thorough.cfg'] if prop == 'C19' else []) + ['MC_DynReg_hist.cfg']:
    res = tlc.run('MC_GinDynReg', cfg, timeout=3000)
    rep.add_tlc(cfg[:-4], res, exhaustive=True)
    if res.violation or res.timed_out:
      raise tlc.TLCError('design-level violation of %s in %s\n%s' % (res.violation, cfg, res.stdout[-3000:]))
  n = main_sim if main_sim is not None else (700 if tier == 'quick' else 8000)
  ex = tlc.run('GinDynReg_Export', 'GinDynReg_Export.cfg', workers=1, simulate=dict(num=n), depth=7, seed=rep.seed + 4, timeout=1500)
  rep.add_tlc('GinDynReg_Export(simulate)', ex, exhaustive=False)
  hx = tlc.run('GinDynReg_Export', 'GinDynReg_Export_hist.cfg', workers=1, timeout=900)
  rep.add_tlc('GinDynReg_Export_hist(every file of the history family after every earlier file, with the specification result)', hx, exhaustive=True)
  hist = [c for c in _cases(hx) if c['prev']]
  sib = []
  if prop == 'C19':
    sx = tlc.run('GinDynReg_Export', 'GinDynReg_Export_sib.cfg', workers=1, timeout=900)
    rep.add_tlc('GinDynReg_Export_sib(every file of the sibling-module family, with the specification result)', sx, exhaustive=True)
    if sx.violation:
      raise tlc.TLCError('design-level violation in the sibling family: %s' % sx.violation)
    # applied bindings after at least two imports: where the import a name came from matters
    sib = [c for c in _cases(sx) if c['status'] == 'ok' and c['cfg'] and sum(1 for x in c['doc'] if x['t'] == 'import') >= 2]
    rx = tlc.run('GinDynReg_Export', 'GinDynReg_Export_rebind.cfg', workers=1, timeout=900)
    rep.add_tlc('GinDynReg_Export_rebind(every file of the family where two imports bind one name, with the specification result)', rx, exhaustive=True)
    if rx.violation:
      raise tlc.TLCError('design-level violation in the re-binding family: %s' % rx.violation)
    rb = [c for c in _cases(rx) if c['status'] == 'ok' and c['cfg'] and
          (sum(1 for x in c['doc'] if x['t'] == 'import') >= 2 or any(x['t'] == 'import' and x['alias'] == 'pk' for x in c['doc']))]
    for c in rb:
      c['fam'] = 'rebind'
    sib += rb
    mx = tlc.run('GinDynReg_Export', 'GinDynReg_Export_meth.cfg', workers=1, timeout=900)
    rep.add_tlc('GinDynReg_Export_meth(every file of the method family: references made before / after methods are configured)', mx, exhaustive=True)
    if mx.violation:
      raise tlc.TLCError('design-level violation in the method family: %s' % mx.violation)
    # a reference and at least one binding of the referenced class or of one of its methods
    mt = [c for c in _cases(mx) if c['status'] == 'ok' and any(b.get('ref', 'none') != 'none' for b in c['cfg']) and len(c['cfg']) >= 2]
    for c in mt:
      c['fam'] = 'meth'
    sib += mt
    for c in sib:
      c['family'] = 'sib'
      c.setdefault('fam', 'sib')
  cases = _cases(ex)
  seen, chosen = set(), []
  for c in sib + hist + cases:
    k = core.jdump([c['doc'], c['skip'], c.get('prev')])
    if k in seen or not c['doc']:
      continue
    if focus is not None and not focus(c):
      continue
    seen.add(k)
    chosen.append(c)
  # files with an earlier file and applied / dropped bindings first, then by number of applied bindings
  chosen.sort(key=lambda c: (-(2 if c.get('prev') and any(s['t'] == 'bind' for s in c['doc']) else 0) - len(c['cfg'])))
  budget = budget or (600 if tier == 'quick' else 8000)
  # a third of the budget for the history family
  h = [c for c in chosen if c.get('prev')][:budget // 3]
  sb = [c for c in chosen if c.get('family') == 'sib']
  import random
  random.Random(rep.seed + 9).shuffle(sb)
  # first the files where a scoped reference or a reference to a nested class meets a method binding
  def _pri(c):
    refs = [b for b in c['cfg'] if b.get('ref', 'none') != 'none']
    meths = [b for b in c['cfg'] if b['obj'] in ('meth', 'im')]
    alias_pk = any(x['t'] == 'import' and x['alias'] == 'pk' for x in c['doc'])
    return -(2 * bool(meths and any(b.get('rscope') for b in refs)) + bool(meths and any(b['ref'] == 'Inner' for b in refs)) + 2 * alias_pk)
  sb.sort(key=_pri)
  # a quota per exhaustively exported family
  q = max(1, budget // 6)
  picked = []
  for fam in ('sib', 'rebind', 'meth'):
    picked += [c for c in sb if c.get('fam') == fam][:q]
  h = h + picked
  rest = [c for c in chosen if not c.get('prev') and c.get('family') != 'sib'][:budget - len(h)]
  for c in h + rest:
    rep.evaluations += 1
    rep.behaviours_replayed += 1
    if c['cfg']:
      rep.nontrivial_case(core.jdump([c['doc'], c.get('prev'), c['skip']['mode']]))
    d = D.check(c)
    if d:
      rep.violation(dict(kind='dynreg-divergence', clause=d[0], status=c['status']),
                    dict(kind='dynreg-case', case=c, clause=d[0], expected=d[1], got=d[2]))
  if chosen:
    cc = D.Case()
    try:
      c0 = (h or rest)[0]
      rep.sample(dict(kind='file built by TLC, written against a real package tree and parsed by gin', text=cc.text(c0['doc']),
                      earlier_file=cc.text(c0['prev']) if c0.get('prev') else None, spec_status=c0['status'], spec_cfg=c0['cfg']))
    finally:
      cc.close()


def replay(prop, path):
  with open(path) as fh:
    r = json.load(fh)['replay']
  d = D.check(r['case'])
  print('divergence: %s' % json.dumps(d, default=str)[:1500] if d else 'conforms')
  if d:
    print('VIOLATION property=%s replay=%s' % (prop, path))
  return 1 if d else 0
