"""C06 - the config string round-trips, is canonical and always parses."""
import json
import random

from ginverif import adapter_core as A
from ginverif import core
from ginverif import textobs
from ginverif.checks import common_core as cc

SKIP = ('gin.macro', 'gin.constant')
WIDTHS = [(80, 4), (20, 2), (8, 0), (6, 4), (200, 1), (30, 8), (12, 11), (40, 0), (100, 16)]
STATS = dict(texts=0, roundtrips=0, permutations=0, widths=set())


def _nontrivial(st):
  if st['out'].get('op') == 'Bind' and st['out']['status'] == 'ok' and len(st['cfg']) >= 3:
    return core.jdump(sorted(core.jdump(b) for b in st['cfg']))
  return None


def _expected(st):
  secs, params, macros = set(), {}, {}
  for b in st['cfg']:
    sel = A.dotted(b['sel'])
    if sel in SKIP:
      if sel == 'gin.macro' and b['param'] == 'value' and A.representable(b['val']):
        macros[A.scope_str(b['scope'])] = core.jdump(b['val'])
      continue
    secs.add((A.scope_str(b['scope']), sel))
    if A.representable(b['val']):
      params[(A.scope_str(b['scope']), sel, b['param'])] = core.jdump(b['val'])
  return dict(sections=secs, params=params, macros=macros)


def _sort_key(scope, full_selector, is_method=False):
  """Independent statement of the documented order: by configurable name (for a method: Class.method), then innermost
  module, ..., then innermost scope outwards; case-insensitive."""
  parts = full_selector.lower().split('.')
  if is_method:
    parts = parts[:-2] + ['.'.join(parts[-2:])]
  return parts[::-1] + scope.lower().split('/')[::-1]


def _div(clause, expected, got, **kw):
  d = dict(step=-1, action='config_str', clause=clause, expected=expected, got=got)
  d.update(kw)
  return d


def at_end(world, beh):
  gin, config = world.gin, world.config
  st = beh[-1]
  while world.cms:
    world.cms.pop().__exit__(None, None, None)
  want = _expected(st)
  rng = random.Random(world.pool_seed)
  pairs = [WIDTHS[0]] + rng.sample(WIDTHS[1:], 2)
  base = None
  for w, c in pairs:
    STATS['texts'] += 1
    STATS['widths'].add((w, c))
    try:
      text = gin.config_str(max_line_length=w, continuation_indent=c)
    except Exception as e:  # pylint: disable=broad-except
      return _div('returns', 'a string', '%s: %s' % (type(e).__name__, e), width=[w, c])
    if base is None:
      base = text
    try:
      got = textobs.read(world, text)
    except Exception as e:  # pylint: disable=broad-except
      return _div('always-parses', 'parses', '%s: %s' % (type(e).__name__, e), width=[w, c], text=text)
    for f in ('sections', 'params', 'macros'):
      if want[f] != got[f]:
        return _div('statements.' + f, sorted(map(str, want[f].items() if isinstance(want[f], dict) else want[f])),
                    sorted(map(str, got[f].items() if isinstance(got[f], dict) else got[f])), width=[w, c], text=text)
    # grouping: sections in the documented order, parameters sorted within a section
    heads = [h for h, _ in textobs.sections(text)]
    keyed = []
    for h in heads:
      *scopes, sel = h.split('/')
      full = textobs.resolve(world, sel)
      keyed.append(_sort_key('/'.join(scopes), full, (world.desc.get(full) or {}).get('kind') == 'meth'))
    if keyed != sorted(keyed):
      return _div('grouped-alphabetically', sorted(keyed), keyed, text=text)
    lines = [l for l in text.split('\n')]
    plist = [(s[1], s[2], s[3]) for s in textobs.statements(text) if s[0] == 'bind' and s[3]]
    for a, b in zip(plist, plist[1:]):
      if a[:2] == b[:2] and not a[2] < b[2]:
        return _div('parameters-sorted', 'sorted', [a, b], text=text)
    # Markdown keeps every binding line verbatim (after a four-space indent)
    md = config.markdown(text).split('\n')
    for l in lines:
      if l and not l.startswith('#') and ('    ' + l) not in md:
        return _div('markdown-verbatim', '    ' + l, 'missing', width=[w, c], text=text)
  # round trip
  STATS['roundtrips'] += 1
  all_repr = all(A.representable(b['val']) for b in st['cfg'])
  gin.clear_config()
  try:
    gin.parse_config(base)
  except Exception as e:  # pylint: disable=broad-except
    return _div('roundtrip.parses', 'parses', '%s: %s' % (type(e).__name__, e), text=base)
  proj = world.project()['cfg']
  restored = {}
  for (scope, sel), plist in proj.items():
    for p, v in plist:
      restored[(scope, sel, p)] = core.jdump(v)
  wantp = dict(want['params'])
  for name, v in want['macros'].items():
    wantp[(name, 'gin.macro', 'value')] = v
  if restored != wantp:
    return _div('roundtrip.restores', sorted(map(str, wantp.items())), sorted(map(str, restored.items())), text=base)
  text2 = gin.config_str()
  if all_repr and text2 != base:
    return _div('roundtrip.identical-text', base, text2)
  gin.clear_config()
  gin.parse_config(text2)
  text3 = gin.config_str()
  if text3 != text2:
    return _div('roundtrip.idempotent', text2, text3)
  # order independence: the same bindings made in another order give the same text
  items = [((scope, sel, p), v) for (scope, sel), d in config._CONFIG.items() for p, v in d.items()]
  for _ in range(2):
    STATS['permutations'] += 1
    rng.shuffle(items)
    gin.clear_config()
    for key, v in items:
      gin.bind_parameter(key, v)
    text4 = gin.config_str()
    if text4 != text2:
      return _div('order-independent', text2, text4, order=[list(k) for k, _ in items])
  return _dynamic_registration_pass(world, items, rng)


def _dynamic_registration_pass(world, items, rng):
  """The same clauses with dynamic registration switched on: the text names configurables through import statements
  it writes itself (for every module a bound configurable lives in), in a canonical order, and re-parses to itself."""
  gin, config = world.gin, world.config
  if not items or any(isinstance(v, config.ConfigurableReference) for _, v in items for v in [v]):
    pass
  ENABLE = 'from __gin__ import dynamic_registration\n'
  texts = []
  orders = [list(items), list(reversed(items))]
  extra = list(items)
  rng.shuffle(extra)
  orders.append(extra)
  # one of the modules is imported by the parsed text itself (a recorded import), the others are added by config_str
  mods = sorted(set(world.originals[sel].__module__ for (_, sel, _), _ in items if sel in world.originals))
  pre = ENABLE
  if len(mods) >= 2 and world.pool_seed % 2:
    # ... a dotted module under an alias equal to its last component (`import n.m as m`), a plain one as it is
    dotted = [m for m in mods if '.' in m]
    if dotted and world.pool_seed % 4 == 1:
      pre += 'import %s as %s\n' % (dotted[-1], dotted[-1].split('.')[-1])
    else:
      pre += 'import %s\n' % mods[-1]
  for order in orders:
    gin.clear_config()
    try:
      gin.parse_config(pre)
      for key, v in order:
        gin.bind_parameter(key, v)
      texts.append(gin.config_str())
    except Exception as e:  # pylint: disable=broad-except
      return _div('dynamic.returns', 'a string', '%s: %s' % (type(e).__name__, e), order=[list(k) for k, _ in order])
  STATS['dynamic_texts'] = STATS.get('dynamic_texts', 0) + len(texts)
  if len(set(texts)) != 1:
    return _div('dynamic.order-independent', texts[0], [t for t in texts if t != texts[0]][0], order=[list(k) for k, _ in orders[1]])
  imports = [l.split()[1] for l in texts[0].split('\n') if l.startswith(('import ', 'from ')) and '__gin__' not in l]
  if imports != sorted(imports):
    return _div('dynamic.imports-sorted', sorted(imports), imports, text=texts[0])
  want = {(scope, sel, p): core.jdump(world.to_spec(v)) for (scope, sel, p), v in items if config._is_literally_representable(v)}
  gin.clear_config()
  try:
    gin.parse_config(texts[0])
  except Exception as e:  # pylint: disable=broad-except
    return _div('dynamic.roundtrip.parses', 'parses', '%s: %s' % (type(e).__name__, e), text=texts[0])
  got = {}
  for (scope, sel), plist in world.project()['cfg'].items():
    for p, v in plist:
      got[(scope, sel, p)] = core.jdump(v)
  if got != want:
    return _div('dynamic.roundtrip.restores', sorted(map(str, want.items())), sorted(map(str, got.items())), text=texts[0])
  again = gin.config_str()
  if again != texts[0] and len(want) == len(items):
    return _div('dynamic.roundtrip.identical-text', texts[0], again)
  return None


def _replay(b, **kw):
  return A.replay(b, at_end=at_end, **kw)


def run(tier):
  rep = core.Report('C06', tier)
  rep.rule = ('TLC checks, over registries whose names are suffixes of one another, that every statement the abstract '
              'serialisation emits resolves uniquely back to its configurable and is accepted, and that exactly the '
              'representable bindings are emitted; behaviours are replayed into gin with concrete literal pools that '
              'stress the text level; on each final state config_str() is taken at 3 (width, indent) pairs, read back with '
              'gin\'s parser and compared statement by statement, checked for section / parameter order and Markdown '
              'fidelity, then parsed into a cleared configuration (restored bindings compared value- and type-exactly), '
              'serialised again (identical text when everything is representable, idempotent otherwise) and rebuilt in two '
              'shuffled binding orders (identical text); non-trivial = a state with at least 3 bindings')
  cc.model_check(rep, 'MC_Serialize_quick', timeout=600)
  cc.model_check(rep, 'MC_Serialize_methods', timeout=600)
  k = 300 if tier == 'quick' else 4000
  cc.replay_behaviours(rep, 'GinCore_Sim_serialize', num=k, depth=14, nontrivial=_nontrivial, generate=k * 3, replay_fn=_replay)
  STATS['widths'] = sorted(STATS['widths'])
  rep.extra.update(STATS)
  return rep.finish()


def replay(path):
  with open(path) as fh:
    blob = json.load(fh)
  d = _replay(blob['replay']['behaviour'])
  print('divergence: %s' % json.dumps(d, default=str)[:2000] if d else 'conforms')
  if d:
    print('VIOLATION property=C06 replay=%s' % path)
  return 1 if d else 0
