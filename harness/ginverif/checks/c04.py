"""C04 - references deliver the configurable or a fresh result, in the right scope."""
from ginverif import core
from ginverif.checks import common_core as cc


def _has_ref(v):
  if isinstance(v, list):
    if v and v[0] == 'ref':
      return True
    return any(_has_ref(x) for x in v)
  return False


def _nontrivial(st):
  o = st['out']
  if o.get('op') != 'Call' or o['status'] != 'ok':
    return None
  mine = [b for b in st['cfg'] if b['sel'] == o['sel'] and _has_ref(b['val'])]
  if mine and len(o['evals']) >= 1:
    return core.jdump([o['sel'], o['pargs'], o['ckw'], st['stack'][-1], [[e['sel'], e['scope']] for e in o['evals']],
                       sorted(core.jdump(b) for b in st['cfg'])])
  return None


def run(tier):
  rep = core.Report('C04', tier)
  rep.rule = ('TLC checks C04_Refs: the evaluation log of every call (who was invoked, under which scope, in which '
              'order) equals one invocation per occurrence of an evaluated reference in Gin-supplied parameters, '
              'recursively, and none for caller-supplied parameters; bare references deliver the configurable; '
              'control: the pre-fix keyword-override behaviour must violate it; behaviours are replayed into gin with '
              'counting probes, result objects compared structurally, and consumers mutate every container they '
              'receive before the next step; non-trivial = a successful call whose configurable has a '
              'reference-bearing binding')
  cc.model_check(rep, 'MC_Refs_quick' if tier == 'quick' else 'MC_Refs_thorough', timeout=3400)
  cc.expect_violation(rep, 'MC_Refs_dev', 'C04_Refs', key='control_DevKwEval_violates')
  cc.model_check(rep, 'MC_Refs_getbindings', timeout=900)
  cc.model_check(rep, 'MC_Refs_kw', timeout=900)       # keyword-only / catch-all names overridden by caller keywords
  # scoped references under every ambient scope (shortest witness per (call, bindings, ambient scope))
  cc.replay_scenarios(rep, 'GinCore_Scen_refscope', max_files=300 if tier == 'quick' else 1200, nontrivial=_nontrivial,
                      depth=5 if tier == 'quick' else 6, timeout=200 if tier == 'quick' else 900)
  if tier == 'thorough':
    cc.replay_scenarios(rep, 'GinCore_Scen_refs', max_files=1500, nontrivial=_nontrivial, depth=4, timeout=1200)
  n = 500 if tier == 'quick' else 4000
  cc.replay_behaviours(rep, 'GinCore_Sim_refs', num=n, depth=14, nontrivial=_nontrivial, generate=n * 8)
  cc.trace_validate(rep, 50 if tier == 'quick' else 600, seed_off=104)
  return rep.finish()


def replay(path):
  return cc.replay_file('C04', path)
