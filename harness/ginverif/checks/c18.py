"""C18 - shared records stay consistent under threads; singletons are constructed once."""
import json
import os
import shutil

from ginverif import adapter_threads as T
from ginverif import core
from ginverif import tlc

PROGRAMS = {
    'P2': {'t1': [dict(op='enter', scope='a'), dict(op='call', conf='f', single='s1'), dict(op='read')],
           't2': [dict(op='call', conf='f', single='s1'), dict(op='read'), dict(op='call', conf='g', single='')]},
    'P3': {'t1': [dict(op='enter', scope='a'), dict(op='call', conf='f', single='s1'), dict(op='exit'), dict(op='call', conf='g', single='')],
           't2': [dict(op='call', conf='f', single='s1'), dict(op='read')],
           't3': [dict(op='enter', scope='b'), dict(op='read'), dict(op='call', conf='h', single='s2')]},
    'P4': {'t1': [dict(op='call', conf='f', single='s1'), dict(op='call', conf='g', single='')],
           't2': [dict(op='enter', scope='b'), dict(op='call', conf='f', single='s1'), dict(op='read')],
           't3': [dict(op='read'), dict(op='call', conf='h', single='s2'), dict(op='read')],
           't4': [dict(op='enter', scope='a'), dict(op='enter', scope='b'), dict(op='call', conf='h', single='s2'), dict(op='exit'), dict(op='call', conf='g', single='')]},
}


def _validate(programs, traces):
  wd = tlc.scratch()
  try:
    tf = os.path.join(wd, 'threads.json')
    with open(tf, 'w') as fh:
      json.dump(dict(programs=programs, traces=traces), fh)
    res = tlc.run('GinThreads_Trace', 'GinThreads_Trace.cfg', workers=1, env=dict(TRACE_FILE=tf), timeout=1500, workdir=wd)
    verdicts = {}
    for line in res.prints:
      if line.startswith('<<"VERDICT"'):
        t = tlc.parse_tla_tuple(line)
        verdicts[t[1]] = (t[2] >= t[3], t[2])
    return [verdicts.get(i + 1, (False, 0)) for i in range(len(traces))], res
  finally:
    shutil.rmtree(wd, ignore_errors=True)


def run_into(rep, tier, prop):
  """Model checking + scheduled executions; violations are filtered to the clauses of `prop`."""
  for cfg in (['MC_Threads_quick', 'MC_Threads_three']):
    res = tlc.run('MC_GinThreads', cfg + '.cfg', timeout=1500)
    rep.add_tlc(cfg + '(all interleavings at shared-access granularity)', res, exhaustive=True)
    if res.violation:
      raise tlc.TLCError('design-level violation of %s in %s' % (res.violation, cfg))
  for cfg, inv in (('MC_Threads_nosinglelock', 'C18_Once'), ('MC_Threads_nooperlock', 'C18_NoFailure')):
    res = tlc.run('MC_GinThreads', cfg + '.cfg', workers=4, timeout=600)
    rep.extra['control_' + cfg] = res.violation
    if res.violation != inv:
      raise tlc.TLCError('control %s: expected %s, got %r' % (cfg, inv, res.violation))
  n = (80 if prop == 'C18' else 30) if tier == 'quick' else 2500
  clauses = {'C18': ('deadlock', 'no-failure', 'singleton-once', 'singleton-same-object', 'sequential-equivalence', 'trace'),
             'C09': ('scope-private',)}[prop]
  for pname, programs in PROGRAMS.items():
    seq = T.sequential(programs)
    traces, metas = [], []
    for i in range(n):
      seed = rep.seed * 1000003 + i * 7919 + len(pname)
      r = T.scheduled(programs, seed, preempt=[0.1, 0.25, 0.5][i % 3])
      rep.evaluations += 1
      rep.nontrivial_case('%s/%s' % (pname, core.jdump(r['events'])))
      if r['final'] is not None and r['final'] != seq:
        r['failures'].append((dict(clause='sequential-equivalence'), 'final operative config differs from the sequential run'))
      for sig, detail in r['failures']:
        if sig['clause'] in clauses:
          rep.violation(dict(sig, kind='thread-oracle', programs=pname),
                        dict(kind='schedule', programs=pname, seed=seed, preempt=[0.1, 0.25, 0.5][i % 3], detail=detail, events=r['events']))
      traces.append(r['events'])
      metas.append(seed)
    rep.extra.setdefault('context_switches', 0)
    if prop == 'C18':
      verdicts, res = _validate(programs, traces)
      rep.add_tlc('GinThreads_Trace(%s)' % pname, res)
      if res.violation and res.violation.startswith('C'):
        rep.violation(dict(kind='trace-invariant', invariant=res.violation, programs=pname, clause='trace'),
                      dict(kind='schedule-batch', programs=pname, tlc=res.stdout[-2000:]))
      elif res.violation:
        raise tlc.TLCError('trace validation failed to run: %s\n%s' % (res.violation, res.stdout[-3000:]))
      for ev, seed, (ok, far) in zip(traces, metas, verdicts):
        rep.traces_validated += 1
        if not ok:
          bad = ev[far - 1] if 0 < far <= len(ev) else None
          rep.violation(dict(kind='trace-rejected', module='GinThreads', event=bad[1] if bad else None, programs=pname, clause='trace'),
                        dict(kind='schedule', programs=pname, seed=seed, rejected_at=far, event=bad, events=ev))
  rep.sample(dict(kind='scheduled execution: events recorded at shared accesses, validated by TLC', programs='P2', events=traces[0][:30] if traces else []))


def _single_case(st):
  o = st['out']
  if o.get('op') == 'Clear':
    return core.jdump(['clear', o['clearConstants'], o['had']])
  if o.get('op') == 'SingletonDirect':
    return core.jdump(['direct', o['key'], o['fresh']])
  if o.get('op') == 'Call' and st['singles']:
    return core.jdump(['use', o['sel'], o['status'], sorted(core.jdump(x['key']) for x in st['singles'])])
  return None


def run(tier):
  rep = core.Report('C18', tier)
  rep.rule = ('TLC explores every interleaving (shared-access granularity) of 2 and 3 threads that call configurables in distinct '
              'and shared scopes, read the operative config and use the same / different singletons for the first time, with '
              'two controls (without either lock the properties fail); real threads run the same programs (and a 4-thread one) '
              'under a deterministic scheduler that preempts at every line of gin/config.py and at every lock / shared-dict '
              'operation with seeded probability; each execution is judged by direct oracles (no failure, reads parse, final text '
              '= sequential text, constructor once, same object) and its event sequence is validated by TLC against GinThreads with '
              'all invariants on; non-trivial = every distinct event sequence')
  rep.assumptions = ['line granularity is sampled (seeded), not enumerated']
  run_into(rep, tier, 'C18')
  # the sequential half: every history of singleton uses (through gin.singleton and directly) and clears (GinCore:
  # C18_SingletonOnce, C20_Pristine); random walks of a model with only these actions, replayed into gin
  from ginverif.checks import common_core as cc
  n = 80 if tier == 'quick' else 1500
  # nested singletons (the constructor of one is configured with a reference to another), by shortest witnesses
  cc.replay_scenarios(rep, 'GinCore_Scen_nested', max_files=150 if tier == 'quick' else 1000, nontrivial=_single_case,
                      depth=6 if tier == 'quick' else 7, timeout=200)
  cc.replay_behaviours(rep, 'GinCore_Sim_singleton', num=n, depth=10, nontrivial=_single_case, generate=n * 6, seed_off=37)
  return rep.finish()


def replay(path):
  with open(path) as fh:
    r = json.load(fh)['replay']
  res = T.scheduled(PROGRAMS[r['programs']], r['seed'], r.get('preempt', 0.25))
  verdicts, tl = _validate(PROGRAMS[r['programs']], [res['events']])
  bad = bool(res['failures']) or not verdicts[0][0] or bool(tl.violation)
  print(res['failures'][:3], verdicts, tl.violation)
  if bad:
    print('VIOLATION property=C18 replay=%s' % path)
  return 1 if bad else 0
