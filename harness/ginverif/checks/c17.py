"""C17 - exceptions from configurables keep their type, data and traceback."""
import itertools
import json

from ginverif import adapter_exc as X
from ginverif import core
from ginverif import tlc


def run(tier):
  rep = core.Report('C17', tier)
  rep.rule = ('TLC checks the propagation / message-composition machine (nesting depth <= 3, six class descriptors, both raise '
              'sites) against C17_SameClass / C17_Attrs / C17_Traceback / C17_Message for the intended design, and - as an '
              'expected-violation control - shows that the recorded deviations of today\'s code violate C17_Attrs; every builtin '
              'exception class constructible in this interpreter plus six user classes is raised at depth 1-3 in a body or during '
              'reference evaluation under several scope layouts and the caught object is observed (class, MRO membership, every '
              'public attribute, traceback, message prefix and ordered suffixes); non-trivial = every (class, depth, site, scopes) case')
  rep.assumptions = ['the universally quantified part over exception classes is an enumeration by the harness; the model '
                     'contributes the propagation machine, the predicate and the named deviations']
  res = tlc.run('MC_GinExc', 'MC_Exc_intended.cfg', workers=4, timeout=600)
  rep.add_tlc('MC_Exc_intended', res, exhaustive=True)
  if res.violation:
    raise tlc.TLCError('design-level violation of %s' % res.violation)
  res = tlc.run('MC_GinExc', 'MC_Exc_today.cfg', workers=4, timeout=600)
  rep.extra['control_today_violates'] = res.violation
  if res.violation != 'C17_Attrs':
    raise tlc.TLCError('control: today\'s deviations should violate C17_Attrs, got %r' % res.violation)
  layouts = [('', '', ''), ('a', '', ''), ('a', 'b', ''), ('', 'b', 'c'), ('a', 'b', 'c')]
  if tier == 'quick':
    combos = [(1, 'body', layouts[1]), (2, 'reference', layouts[2]), (3, 'body', layouts[4]), (3, 'reference', layouts[3])]
  else:
    combos = [(d, s, l) for d in (1, 2, 3) for s in ('body', 'reference') for l in layouts]
  uni = X.universe()
  rep.extra['exception_classes'] = len(uni)
  traces, descs, labels = [], {}, []
  for (label, fac), (depth, site, scopes) in itertools.product(uni, combos):
    rep.evaluations += 1
    rep.nontrivial_case('%s/%d/%s/%s' % (label, depth, site, '/'.join(scopes)))
    try:
      fails = X.observe(label, fac, depth, site, scopes)
    except Exception as e:  # pylint: disable=broad-except
      fails = [(dict(clause='harness'), '%s: %s' % (type(e).__name__, e))]
    for sig, detail in fails:
      sig = dict(sig, kind='exception-fidelity')
      rep.violation(sig, dict(kind='exc-case', label=label, depth=depth, site=site, scopes=list(scopes), detail=detail))
    if getattr(X.observe, 'last_trace', None):
      traces.append(list(X.observe.last_trace))
      descs[X.observe.last_desc['id']] = X.observe.last_desc
      labels.append((label, depth, site, list(scopes)))
  # code -> spec: every observation, as a trace, must be a behaviour of GinExc with today's named deviations
  verdicts, res = _validate(list(descs.values()), traces)
  rep.add_tlc('GinExc_Trace', res)
  for (label, depth, site, scopes), ev, (ok, far) in zip(labels, traces, verdicts):
    rep.traces_validated += 1
    if not ok:
      rep.violation(dict(kind='trace-rejected', module='GinExc', event=(ev[far - 1][0] if 0 < far <= len(ev) else None)),
                    dict(kind='exc-case', label=label, depth=depth, site=site, scopes=scopes, detail='trace rejected at %d: %s' % (far, ev)))
  rep.sample(dict(kind='exception case', label='OSError', depth=3, site='reference', scopes=['a', 'b', 'c']))
  # witnesses of the recorded findings must still fail (otherwise they are fixed and the entry is stale)
  for f in rep._known:
    hit = rep.known_hits.get(f['id'], 0)
    if hit:
      rep.known_finding_still_fails(f['id'], '%s (%d cases in this run)' % (f['what'], hit))
  return rep.finish()


def _validate(descs, traces):
  import os, shutil
  wd = tlc.scratch()
  try:
    tf = os.path.join(wd, 'exc.json')
    with open(tf, 'w') as fh:
      json.dump(dict(descs=descs, traces=traces), fh)
    res = tlc.run('GinExc_Trace', 'GinExc_Trace.cfg', workers=1, env=dict(TRACE_FILE=tf), timeout=900, workdir=wd)
    if res.violation:
      raise tlc.TLCError('trace validation failed to run: %s\n%s' % (res.violation, res.stdout[-3000:]))
    v = {}
    for line in res.prints:
      if line.startswith('<<"VERDICT"'):
        t = tlc.parse_tla_tuple(line)
        v[t[1]] = (t[2] >= t[3], t[2])
    return [v.get(i + 1, (False, 0)) for i in range(len(traces))], res
  finally:
    shutil.rmtree(wd, ignore_errors=True)


def replay(path):
  with open(path) as fh:
    r = json.load(fh)['replay']
  fac = dict(X.universe())[r['label']]
  fails = X.observe(r['label'], fac, r['depth'], r['site'], tuple(r['scopes']))
  print(fails[:5] if fails else 'conforms')
  if fails:
    print('VIOLATION property=C17 replay=%s' % path)
  return 1 if fails else 0
