"""C12 - finalize locks the configuration; unlock_config always restores the lock."""
from ginverif import core
from ginverif.checks import common_core as cc


def _nontrivial(st):
  o = st['out']
  op = o.get('op')
  if op == 'Finalize':
    return core.jdump(['finalize', o['status'], [h['id'] for h in st['hooks']], st['locked'], len(st['cfg'])])
  if op == 'UnlockExit':
    return core.jdump(['unlock-exit', o['byException'], st['locked'], st['usaved']])
  if op in ('Bind', 'Register') and o['status'] == 'RuntimeError':
    return core.jdump(['guarded', op, st['usaved']])
  return None


def run(tier):
  rep = core.Report('C12', tier)
  rep.rule = ('TLC explores every history of bind / finalize / unlock (nested, body raising) / hook registration / '
              'register / clear within the bounds and checks the lock guard, unlock restoration, finalize atomicity, '
              'conflict detection across spellings and finalize-twice as action properties; simulated behaviours are '
              'replayed into gin with real hooks; non-trivial = a finalize, an unlock exit or a guarded mutation')
  cc.model_check(rep, 'MC_Lock_quick' if tier == 'quick' else 'MC_Lock_thorough', timeout=3400)
  cc.replay_scenarios(rep, 'GinCore_Scen_lock', max_files=250 if tier == 'quick' else 2000, nontrivial=_nontrivial, depth=9)
  n = 150 if tier == 'quick' else 4000
  cc.replay_behaviours(rep, 'GinCore_Sim_lock', num=n, depth=14, nontrivial=_nontrivial)
  cc.trace_validate(rep, 50 if tier == 'quick' else 600, seed_off=112)
  cc.apalache_inductive(rep, 'LockInd', [('init_implies_inv', ['--init=Init', '--inv=IndInv', '--length=0']),
                                          ('inv_is_inductive', ['--init=IndInit', '--inv=IndInv', '--length=1']),
                                          ('inv_implies_restore', ['--init=IndInit', '--inv=Restore', '--length=1']),
                                          ('guard_action_invariant', ['--init=IndInit', '--inv=GuardA', '--length=1'])],
                        'apalache_inductive_lock_machine')
  return rep.finish()


def replay(path):
  return cc.replay_file('C12', path)
