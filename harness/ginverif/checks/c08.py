"""C08 - names resolve by unique dotted suffix, identically through every API.

Map half: SelectorMap.tla (exhaustive TLC on the whole reachable state space of
small name universes), behaviours replayed into gin.selector_map.SelectorMap,
and recorded traces of the real object validated by TLC.
API half: see c08_api (GinCore spellings), called from here.
"""
import json
import random

from ginverif import adapter_selmap as A
from ginverif import core
from ginverif import tlc

INVS = ['C08_TreeIsMap', 'C08_Matching', 'C08_GetMatch', 'C08_Minimal']


def _nontrivial_obs(obs):
  """A state is non-trivial for C08 when some query is ambiguous or some stored name is a
  proper suffix of another stored name (exact-match precedence matters)."""
  for h, o in obs.items():
    names = [tuple(e[0]) for e in o['items']]
    if any(e[1] == 'ambiguous' for e in o['getmatch']):
      return True
    for a in names:
      for b in names:
        if a != b and len(a) < len(b) and b[-len(a):] == a:
          return True
  return False


def model_check(rep, tier):
  cfgs = [('MC_SelectorMap_quick', True)]
  if tier == 'thorough':
    cfgs += [('MC_SelectorMap_thorough', True), ('MC_SelectorMap_values', True)]
  for cfg, exh in cfgs:
    res = tlc.run('MC_SelectorMap', cfg + '.cfg', coverage=True, timeout=3000)
    rep.add_tlc(cfg, res, exhaustive=exh)
    if res.violation:
      raise tlc.TLCError('design-level violation of %s in %s:\n%s' % (res.violation, cfg, res.stdout[-3000:]))
    for act in ('Insert', 'Pop', 'Copy', 'Clear', 'Drop'):
      if res.coverage.get(act, (0, 0))[1] == 0:
        raise tlc.TLCError('vacuity: action %s never taken in %s' % (act, cfg))
  # control: the pre-fix index walk (finding F4) must violate C08_Minimal in the model
  res = tlc.run('MC_SelectorMap', 'MC_SelectorMap_dev.cfg', workers=4, timeout=600)
  rep.extra['control_DevMinimalRoot_violates'] = res.violation
  if res.violation != 'C08_Minimal':
    raise tlc.TLCError('control failed: DevMinimalRoot=TRUE should violate C08_Minimal, got %r' % res.violation)
  if tier == 'thorough':
    # 39-name universe: simulation with all invariants on
    res = tlc.run('MC_SelectorMap', 'MC_SelectorMap_all.cfg', simulate=dict(num=3000), depth=40,
                  seed=rep.seed + 11, workers=16, timeout=1500)
    rep.add_tlc('MC_SelectorMap_all(simulate)', res, exhaustive=False)
    if res.violation:
      raise tlc.TLCError('design-level violation of %s (simulate):\n%s' % (res.violation, res.stdout[-3000:]))


def replay_behaviours(rep, tier):
  num = 150 if tier == 'quick' else 1500
  behs, res = tlc.export_behaviours('SelectorMap_Sim', 'SelectorMap_Sim.cfg', num=num, depth=14,
                                    seed=rep.seed + 1)
  rep.add_tlc('SelectorMap_Sim(simulate,export)', res, exhaustive=False)
  if len(behs) < num // 2:
    raise tlc.TLCError('only %d behaviours exported' % len(behs))
  for b in behs:
    rep.behaviours_replayed += 1
    rep.evaluations += len(b)
    for s in b:
      o = A.normalise(A.spec_obs_to_json(s['obs']))
      if _nontrivial_obs(o):
        rep.nontrivial_case(core.jdump(o))
    d = A.replay(b)
    if d is not None:
      sig = dict(kind='replay-divergence', module='SelectorMap', clause=d.get('clause'),
                 action=d.get('action'))
      rep.violation(sig, dict(kind='behaviour', actions=A.actions_of(b), divergence=d, behaviour=b))
  if behs:
    rep.sample(dict(kind='behaviour replayed into gin.selector_map.SelectorMap', actions=A.actions_of(behs[0])))


def trace_validate(rep, tier):
  n = 150 if tier == 'quick' else 2000
  rng = random.Random(rep.seed * 7919 + 5)
  batch = 500
  traces = [A.random_trace(rng, rng.randint(6, 18)) for _ in range(n)]
  for t in traces:
    for ev in t:
      if _nontrivial_obs(ev['obs']):
        rep.nontrivial_case(core.jdump(ev['obs']))
  for i in range(0, n, batch):
    chunk = traces[i:i + batch]
    verdicts, res = tlc.validate_traces('SelectorMap_Trace', 'SelectorMap_Trace.cfg', chunk)
    rep.add_tlc('SelectorMap_Trace[%d:%d]' % (i, i + len(chunk)), res)
    if res.violation:
      # an invariant failed on a state the real code went through
      rep.violation(dict(kind='trace-invariant', module='SelectorMap', invariant=res.violation),
                    dict(kind='traces', traces=chunk, tlc=res.stdout[-3000:]))
    for t, (ok, far) in zip(chunk, verdicts):
      rep.traces_validated += 1
      rep.evaluations += len(t)
      if not ok:
        ev = t[far - 1] if 0 < far <= len(t) else None
        sig = dict(kind='trace-rejected', module='SelectorMap', op=ev['op'] if ev else None)
        rep.violation(sig, dict(kind='trace', trace=t, rejected_at=far, event=ev))
  if traces:
    rep.sample(dict(kind='recorded trace validated by TLC',
                    events=[[e['op'], e['h'], e['g'], '.'.join(e['n']), e['v'], e['last']] for e in traces[0]]))


def run(tier):
  rep = core.Report('C08', tier)
  rep.rule = ('TLC explores the whole reachable state space of SelectorMap for small name universes; '
              'simulated behaviours are replayed into the real SelectorMap and random histories of the real '
              'object are validated by TLC; a case is non-trivial when a query is ambiguous or a stored name '
              'is a proper suffix of another stored name; distinct = distinct observation maps')
  rep.assumptions = ['TLC 1.8, CommunityModules Json/TLCExt', 'public API of SelectorMap only']
  model_check(rep, tier)
  replay_behaviours(rep, tier)
  trace_validate(rep, tier)
  try:
    from ginverif.checks import c08_api
    c08_api.run_into(rep, tier)
  except ImportError:
    pass
  rep.exhaustive = False
  return rep.finish()


def replay(path):
  with open(path) as fh:
    blob = json.load(fh)
  r = blob['replay']
  if r.get('kind') == 'behaviour':
    d = A.replay(r['behaviour'])
    print('divergence: %s' % json.dumps(d, default=str) if d else 'conforms')
    if d:
      print('VIOLATION property=C08 replay=%s' % path)
    return 1 if d else 0
  if r.get('kind') in ('trace', 'traces'):
    traces = [r['trace']] if r.get('kind') == 'trace' else r['traces']
    verdicts, res = tlc.validate_traces('SelectorMap_Trace', 'SelectorMap_Trace.cfg', traces)
    bad = [i for i, (ok, _) in enumerate(verdicts) if not ok] or ([0] if res.violation else [])
    print('verdicts: %s violation=%s' % (verdicts[:5], res.violation))
    if bad:
      print('VIOLATION property=C08 replay=%s' % path)
    return 1 if bad else 0
  from ginverif.checks import c08_api
  return c08_api.replay(path, blob)
