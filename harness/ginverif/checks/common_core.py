"""Shared steps for the checks that are decided on GinCore.tla."""
import json
import os
import time

from ginverif import adapter_core as A
from ginverif import core
from ginverif import tlc


def model_check(rep, cfg, module='MC_GinCore', required_actions=(), workers=16, timeout=3000, exhaustive=True):
  res = tlc.run(module, cfg + '.cfg', coverage=bool(required_actions), workers=workers, timeout=timeout)
  rep.add_tlc(cfg, res, exhaustive=exhaustive)
  if res.timed_out:
    raise tlc.TLCError('%s timed out' % cfg)
  if res.violation:
    raise tlc.TLCError('design-level violation of %s in %s:\n%s' % (res.violation, cfg, res.stdout[-3000:]))
  for act in required_actions:
    if res.coverage.get(act, (0, 0))[1] == 0:
      raise tlc.TLCError('vacuity: action %s never taken in %s' % (act, cfg))
  return res


def expect_violation(rep, cfg, invariant, module='MC_GinCore', key=None, timeout=900):
  """A control run: the model with a known deviation switched on must violate `invariant`."""
  res = tlc.run(module, cfg + '.cfg', workers=8, timeout=timeout)
  rep.extra[key or ('control_' + cfg)] = res.violation
  if res.violation != invariant:
    raise tlc.TLCError('control %s: expected violation of %s, got %r\n%s' % (cfg, invariant, res.violation, res.stdout[-2000:]))


def replay_behaviours(rep, sim_cfg, num, depth=12, seed_off=1, nontrivial=None, fields=None, module='GinCore_Sim',
                      sigkey=None, generate=None, replay_fn=None, beh_keys=None):
  """Exports simulated behaviours from TLC and replays them into the code.  When `generate` > num,
  `generate` behaviours are exported (cheap) and the `num` replayed ones are chosen greedily so as to cover
  as many distinct non-trivial cases as possible (the rest at random)."""
  import random
  gen = max(num, generate or num)
  behs, res = tlc.export_behaviours(module, sim_cfg + '.cfg', num=gen, depth=depth, seed=rep.seed + seed_off)
  rep.add_tlc(sim_cfg + '(simulate,export)', res, exhaustive=False)
  if len(behs) < max(1, gen // 2):
    raise tlc.TLCError('only %d behaviours exported by %s' % (len(behs), sim_cfg))
  keys = []
  for b in behs:
    ks = set()
    if nontrivial:
      for st in b:
        k = nontrivial(st)
        if k is not None:
          ks.add(k)
    if beh_keys:
      ks |= set(beh_keys(b))
    keys.append(ks)
  if len(behs) > num:
    chosen, seen = [], set()
    order = sorted(range(len(behs)), key=lambda i: -len(keys[i]))
    for i in order:
      if len(chosen) >= (num * 2) // 3:
        break
      if keys[i] - seen:
        chosen.append(i)
        seen |= keys[i]
    rest = [i for i in range(len(behs)) if i not in set(chosen)]
    random.Random(rep.seed + 77).shuffle(rest)
    chosen += rest[:num - len(chosen)]
    rep.extra.setdefault('generated_behaviours', {})[sim_cfg] = len(behs)
  else:
    chosen = list(range(len(behs)))
  kw = {}
  if fields:
    kw['fields'] = fields
  fn = replay_fn or A.replay
  for i in chosen:
    b = behs[i]
    rep.behaviours_replayed += 1
    rep.evaluations += len(b) - 1
    for k in keys[i]:
      rep.nontrivial_case(k)
    d = fn(b, **kw)
    if d is not None:
      sig = dict(kind='replay-divergence', module='GinCore', clause=d.get('clause'), action=d.get('action'))
      if sigkey:
        sig.update(sigkey(d, b))
      rep.violation(sig, dict(kind='behaviour', sim_cfg=sim_cfg, actions=A.actions_of(b), divergence=d, behaviour=b))
  if behs:
    rep.sample(dict(kind='TLC behaviour replayed into gin', config=sim_cfg, actions=A.actions_of(behs[chosen[0]])[:8]))
  return [behs[i] for i in chosen]


def replay_scenarios(rep, scen_cfg, max_files=400, nontrivial=None, fields=None, timeout=150, depth=8, replay_fn=None, salts=(0,)):
  """Scenario-directed export (GinCore_Scen): one shortest behaviour per scenario key."""
  import os, shutil, re
  wd = tlc.scratch()
  try:
    out_dir = os.path.join(wd, 'out')
    os.mkdir(out_dir)
    res = tlc.run('GinCore_Scen', scen_cfg + '.cfg', workers=1, env=dict(OUT_DIR=out_dir, SCEN_MAX=str(max_files), SCEN_DEPTH=str(depth)),
                  timeout=timeout, workdir=wd)
    if res.violation and not res.timed_out:
      raise tlc.TLCError('scenario export reported %s:\n%s' % (res.violation, res.stdout[-3000:]))
    rep.extra.setdefault('scenario_export_timed_out', {})[scen_cfg] = bool(res.timed_out)
    behs = []
    for f in sorted(os.listdir(out_dir), key=lambda x: int(re.sub(r'\D', '', x) or 0)):
      with open(os.path.join(out_dir, f)) as fh:
        try:
          behs.append(json.load(fh))
        except ValueError:
          pass
  finally:
    shutil.rmtree(wd, ignore_errors=True)
  rep.add_tlc(scen_cfg + '(bfs,scenario export)', res, exhaustive=False)
  if not behs:
    raise tlc.TLCError('no scenario behaviours exported by %s' % scen_cfg)
  kw = {'fields': fields} if fields else {}
  for b in behs:
    rep.behaviours_replayed += 1
    rep.evaluations += len(b) - 1
    if nontrivial:
      for st in b:
        k = nontrivial(st)
        if k is not None:
          rep.nontrivial_case(k)
    d = None
    for salt in salts:          # the same behaviour under several concretisations (literal pools, spellings, exception kinds)
      d = (replay_fn or A.replay)(b, **(dict(kw, salt=salt) if salt else kw))
      if d is not None:
        break
    if d is not None:
      sig = dict(kind='replay-divergence', module='GinCore', clause=d.get('clause'), action=d.get('action'))
      rep.violation(sig, dict(kind='behaviour', sim_cfg=scen_cfg, actions=A.actions_of(b), divergence=d, behaviour=b))
  rep.extra.setdefault('scenario_behaviours', {})[scen_cfg] = len(behs)
  rep.sample(dict(kind='scenario behaviour (shortest witness) replayed into gin', config=scen_cfg,
                  actions=A.actions_of(behs[-1])[:8]))
  return behs


def trace_validate(rep, n, seed_off=100, length=16):
  """Code -> specification: random histories of the real gin (drivers_core) validated by TLC against GinCore."""
  import random
  from ginverif import drivers_core
  rng = random.Random(rep.seed * 9973 + seed_off)
  traces = [drivers_core.drive(rng, length) for _ in range(n)]
  for t in traces:
    if t.get('reg_failed'):
      rep.violation(dict(kind='registration-rejected', module='GinCore', status=sorted(set(t['reg_failed'].values()))),
                    dict(kind='core-registration', reg=t['reg'], got=t['reg_failed']))
  traces = [t for t in traces if not t.get('reg_failed')]
  n = len(traces)
  batch = 150
  for i in range(0, n, batch):
    chunk = traces[i:i + batch]
    verdicts, res = tlc.validate_traces('GinCore_Trace', 'GinCore_Trace.cfg', chunk, timeout=2400)
    rep.add_tlc('GinCore_Trace[%d:%d]' % (i, i + len(chunk)), res)
    if res.violation:
      rep.violation(dict(kind='trace-invariant', module='GinCore', invariant=res.violation),
                    dict(kind='core-traces', traces=chunk, tlc=res.stdout[-2000:]))
    for t, (ok, far) in zip(chunk, verdicts):
      rep.traces_validated += 1
      rep.evaluations += len(t['events'])
      for e in t['events']:
        if e['op'] == 'Call' and e['status'] == 'ok' and (e['pargs'] or e['ckw'] or len(e['evals']) > 1):
          rep.nontrivial_case(core.jdump([e['sel'], e['pargs'], e['ckw'], e['delivered'], [[x['sel'], x['scope']] for x in e['evals']]]))
      if not ok:
        ev = t['events'][far - 1] if 0 < far <= len(t['events']) else None
        rep.violation(dict(kind='trace-rejected', module='GinCore', op=ev['op'] if ev else None),
                      dict(kind='core-trace', trace=t, rejected_at=far,
                           event={k: v for k, v in (ev or {}).items() if k != 'post'}))
  if traces:
    rep.sample(dict(kind='random history of the real gin, validated by TLC against GinCore',
                    events=[{k: v for k, v in e.items() if k in ('op', 'api', 'scope', 'sel', 'param', 'val', 'how', 'comps', 'pargs', 'ckw', 'status')}
                            for e in traces[0]['events'][:8]]))


def replay_file(prop, path, fields=None):
  with open(path) as fh:
    blob = json.load(fh)
  r = blob['replay']
  if r.get('kind') == 'behaviour':
    kw = {'fields': fields} if fields else {}
    d = A.replay(r['behaviour'], **kw)
    print('divergence: %s' % json.dumps(d, default=str)[:2000] if d else 'conforms')
    if d:
      print('VIOLATION property=%s replay=%s' % (prop, path))
    return 1 if d else 0
  if r.get('kind') == 'core-trace':
    verdicts, res = tlc.validate_traces('GinCore_Trace', 'GinCore_Trace.cfg', [r['trace']])
    bad = not verdicts[0][0] or bool(res.violation)
    print('verdict: %s violation=%s' % (verdicts[0], res.violation))
    if bad:
      print('VIOLATION property=%s replay=%s' % (prop, path))
    return 1 if bad else 0
  print('unknown replay kind %r' % r.get('kind'))
  return 2


def apalache_inductive(rep, module, obligations, key):
  """Symbolic strengthening with Apalache: spec/apalache/<module>.tla - the inductive invariant holds initially, is
  preserved by every step from *arbitrary* (not only reachable) states, and implies the property.  A counterexample
  is a machinery error (the specification is wrong), never a verdict about gin; an undischarged obligation (timeout,
  Apalache missing) is recorded as such and claims nothing."""
  import shutil, subprocess
  src = os.path.join(tlc.SPEC_DIR, 'apalache', module + '.tla')
  results = {}
  for name, args in obligations:
    wd = tlc.scratch('ginverif_apa_')
    try:
      shutil.copy(src, wd)
      t0 = time.time()
      try:
        p = subprocess.run(['apalache-mc', 'check'] + args + ['--out-dir=' + os.path.join(wd, 'out'), module + '.tla'],
                           cwd=wd, stdout=subprocess.PIPE, stderr=subprocess.STDOUT, text=True, timeout=240)
        out = p.stdout
      except (subprocess.TimeoutExpired, OSError) as e:
        out = 'not run: %s' % type(e).__name__
      verdict = 'OK' if 'EXITCODE: OK' in out else ('COUNTEREXAMPLE' if 'EXITCODE: ERROR (12)' in out else 'not discharged')
      results[name] = dict(verdict=verdict, wall_s=round(time.time() - t0, 1))
      if verdict == 'COUNTEREXAMPLE':
        raise tlc.TLCError('Apalache found a counterexample to %s of %s:\n%s' % (name, module, out[-2000:]))
    finally:
      shutil.rmtree(wd, ignore_errors=True)
  rep.extra[key] = results
