"""API half of C08: binding, querying and finalize hooks treat every unambiguous spelling of one parameter as
the same key, and spellings made ambiguous by a later registration are rejected (GinCore BindSp / Query / Register)."""
from ginverif import core
from ginverif.checks import common_core as cc


def _nontrivial(st):
  o = st['out']
  if o.get('op') in ('Bind', 'Query') and 'spelling' in o:
    return core.jdump([o['op'], o['spelling'], o['status'], sorted(core.jdump(c['sel']) for c in st['reg'])])
  return None


def _hook_case(st):
  o = st['out']
  if o.get('op') == 'Finalize' and len(st['hooks']) >= 2:
    return core.jdump(['finalize', o['status'], [h['id'] for h in st['hooks']]])
  return None


def run_into(rep, tier):
  # finalize hooks: two hooks returning the same parameter under different spellings conflict (C12_Conflict is checked
  # by TLC in MC_Lock_*; here the shortest witness of every (finalize outcome, hook sequence) class is replayed)
  cc.replay_scenarios(rep, 'GinCore_Scen_lock', max_files=250 if tier == 'quick' else 2000, nontrivial=_hook_case, depth=9)
  cc.model_check(rep, 'MC_Spellings_quick', timeout=600)
  n = 200 if tier == 'quick' else 3000
  cc.replay_behaviours(rep, 'GinCore_Sim_spellings', num=n, depth=12, nontrivial=_nontrivial, generate=n * 5, seed_off=21)


def replay(path, blob):
  return cc.replay_file('C08', path)
