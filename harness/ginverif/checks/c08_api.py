"""API half of C08: binding, querying and finalize hooks treat every unambiguous spelling of one parameter as
the same key, and spellings made ambiguous by a later registration are rejected (GinCore BindSp / Query / Register)."""
from ginverif import core
from ginverif.checks import common_core as cc


def _nontrivial(st):
  o = st['out']
  if o.get('op') in ('Bind', 'Query') and 'spelling' in o:
    return core.jdump([o['op'], o['spelling'], o['status'], sorted(core.jdump(c['sel']) for c in st['reg'])])
  return None


def run_into(rep, tier):
  cc.model_check(rep, 'MC_Spellings_quick', timeout=600)
  n = 200 if tier == 'quick' else 3000
  cc.replay_behaviours(rep, 'GinCore_Sim_spellings', num=n, depth=12, nontrivial=_nontrivial, generate=n * 5, seed_off=21)


def replay(path, blob):
  return cc.replay_file('C08', path)
