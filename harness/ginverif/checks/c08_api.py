"""API half of C08: binding, querying and finalize hooks treat every unambiguous spelling of one parameter as
the same key, and spellings made ambiguous by a later registration are rejected (GinCore BindSp / Query / Register)."""
from ginverif import core
from ginverif.checks import common_core as cc


def _nontrivial(st):
  o = st['out']
  if o.get('op') in ('Bind', 'Query') and 'spelling' in o:
    return core.jdump([o['op'], o['spelling'], o['status'], sorted(core.jdump(c['sel']) for c in st['reg'])])
  return None


def _hook_case(st):
  o = st['out']
  if o.get('op') == 'Finalize' and len(st['hooks']) >= 2:
    return core.jdump(['finalize', o['status'], [h['id'] for h in st['hooks']]])
  return None


def _macro_ref_case(st):
  o = st['out']
  if o.get('op') == 'Finalize':
    refs = sorted(core.jdump(b['val']) for b in st['cfg'] if '"gin", "macro"' in core.jdump(b['val']))
    defs = sorted(core.jdump(b['scope']) for b in st['cfg'] if b['sel'] == ['gin', 'macro'])
    if refs:
      return core.jdump(['finalize-with-macro-refs', o['status'], refs, defs])
  return None


def run_into(rep, tier):
  # finalize hooks: two hooks returning the same parameter under different spellings conflict (C12_Conflict is checked
  # by TLC in MC_Lock_*; here the shortest witness of every (finalize outcome, hook sequence) class is replayed)
  # references: a macro referenced explicitly (`@W/gin.macro()` or, equally, `@W/macro()`) is the key its definition is
  # stored under, whichever spelling either side used: finalize must find the definition
  # constants: defined, abbreviated in config text, and asked for through query_parameter by any unambiguous suffix
  cc.replay_scenarios(rep, 'GinCore_Scen_const', max_files=600 if tier == 'quick' else 4000, nontrivial=_macro_ref_case,
                      depth=5 if tier == 'quick' else 7, timeout=200)
  cc.replay_scenarios(rep, 'GinCore_Scen_macrofin', max_files=400 if tier == 'quick' else 3000, nontrivial=_macro_ref_case,
                      depth=5 if tier == 'quick' else 6, timeout=200, salts=(0, 1))
  # config text: a name that matches several configurables is known (never skipped by skip_unknown) and rejected
  from ginverif.checks import common_parse
  common_parse.run_into(rep, 'C08', tier, budget=200 if tier == 'quick' else 3000, only_focus=True)
  cc.replay_scenarios(rep, 'GinCore_Scen_lock', max_files=250 if tier == 'quick' else 2000, nontrivial=_hook_case, depth=9)
  cc.model_check(rep, 'MC_Spellings_quick', timeout=600)
  n = 200 if tier == 'quick' else 3000
  cc.replay_behaviours(rep, 'GinCore_Sim_spellings', num=n, depth=12, nontrivial=_nontrivial, generate=n * 5, seed_off=21)


def replay(path, blob):
  return cc.replay_file('C08', path)
