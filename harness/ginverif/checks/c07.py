"""C07 - the operative config records exactly what Gin supplied and suffices to replay."""
from ginverif import adapter_core as A
from ginverif import core
from ginverif import textobs
from ginverif import tlc
from ginverif.checks import common_core as cc

SKIP = ('gin.macro', 'gin.constant')
STATS = dict(text_checks=0, replays=0, replay_skipped_unrepresentable=0)


def _nontrivial(st):
  o = st['out']
  if o.get('op') == 'Call' and o['status'] == 'ok' and (o['pargs'] or o['ckw'] or len(st['okeys']) > 1):
    return core.jdump([o['sel'], o['pargs'], o['ckw'], st['stack'][-1], sorted(core.jdump(r) for r in st['oper'])])
  return None


def _expected_text_view(st):
  secs = set()
  for k in st['okeys']:
    sel = A.dotted(k['sel'])
    if sel not in SKIP:
      secs.add((A.scope_str(k['scope']), sel))
  params, macros = {}, {}
  for r in st['oper']:
    sel = A.dotted(r['sel'])
    if not A.representable(r['val']):
      continue
    if sel == 'gin.macro':
      if r['param'] == 'value':
        macros[A.scope_str(r['scope'])] = core.jdump(r['val'])
    elif sel != 'gin.constant':
      params[(A.scope_str(r['scope']), sel, r['param'])] = core.jdump(r['val'])
  return dict(sections=secs, params=params, macros=macros)


def at_end(world, beh):
  """Text-level oracles on the final state of a replayed behaviour."""
  gin = world.gin
  st = beh[-1]
  while world.cms:
    world.cms.pop().__exit__(None, None, None)
  try:
    text = gin.operative_config_str()
  except Exception as e:  # pylint: disable=broad-except
    return dict(step=len(beh), action='operative_config_str', clause='text.returns', expected='a string',
                got='%s: %s' % (type(e).__name__, e))
  try:
    got = textobs.read(world, text)
  except Exception as e:  # pylint: disable=broad-except
    return dict(step=len(beh), action='operative_config_str', clause='text.parses', expected='parses',
                got='%s: %s' % (type(e).__name__, e), text=text)
  want = _expected_text_view(st)
  STATS['text_checks'] += 1
  for f in ('sections', 'params', 'macros'):
    if want[f] != got[f]:
      return dict(step=len(beh), action='operative_config_str', clause='text.' + f,
                  expected=sorted(map(str, want[f].items() if isinstance(want[f], dict) else want[f])),
                  got=sorted(map(str, got[f].items() if isinstance(got[f], dict) else got[f])), text=text)
  # replay: clear, parse the text, repeat the same calls
  if not all(A.representable(r['val']) for r in st['oper']) or not all(A.representable(b['val']) for b in st['cfg']):
    STATS['replay_skipped_unrepresentable'] += 1
    return None
  # the replay clause is about a fixed configuration followed by calls
  ops = [x['out'] for x in beh[1:]]
  first_call = next((i for i, o in enumerate(ops) if o['op'] == 'Call'), None)
  if first_call is None or any(o['op'] == 'Bind' and o['status'] == 'ok' for o in ops[first_call:]):
    STATS['replay_skipped_config_changed_between_calls'] = STATS.get('replay_skipped_config_changed_between_calls', 0) + 1
    return None
  calls = list(world.call_log)
  STATS['replays'] += 1
  gin.clear_config()
  try:
    gin.parse_config(text)
  except Exception as e:  # pylint: disable=broad-except
    return dict(step=len(beh), action='parse(operative_config_str)', clause='replay.parses', expected='parses',
                got='%s: %s' % (type(e).__name__, e), text=text)
  for c in calls:
    world.call_log = []
    with gin.config_scope(list(c['scope'])):
      world.call(c['sel'], c['pargs'], c['ckw'])
    again = world.call_log[-1]
    if c['status'] == 'ok' and (again['status'] != 'ok' or sorted(again['evals']) != sorted(c['evals'])):
      return dict(step=len(beh), action='replayed call', clause='replay.same-arguments', call=[c['sel'], c['pargs'], c['ckw'], c['scope']],
                  expected=c['evals'], got=[again['status']] + again['evals'], text=text)
  text2 = gin.operative_config_str()
  if text2 != text:
    return dict(step=len(beh), action='replayed calls', clause='replay.same-text', expected=text, got=text2)
  return None


def _replay(b, **kw):
  return A.replay(b, at_end=at_end, **kw)


def run(tier):
  rep = core.Report('C07', tier)
  rep.rule = ('TLC checks C07_Step / C07_Sections / C07_Never (which parameters a call records, with which value, under '
              'which (scope, configurable) key) along simulated behaviours of the model; behaviours are replayed into gin '
              'comparing the operative record after every step, then operative_config_str() is read back with gin\'s own '
              'parser and compared with the record statement by statement, and - when everything supplied is '
              'representable - the configuration is cleared, the text parsed and the same calls repeated, comparing every '
              'probe invocation and the final text; non-trivial = a successful call with caller-supplied arguments or with '
              'several recorded keys')
  n = 400 if tier == 'quick' else 3000
  res = tlc.run('MC_GinCore', 'MC_Operative_quick.cfg', simulate=dict(num=n), depth=14, seed=rep.seed + 3, workers=16,
                timeout=1500)
  rep.add_tlc('MC_Operative_quick(simulate, properties checked on every transition)', res, exhaustive=False)
  if res.violation:
    raise tlc.TLCError('design-level violation of %s:\n%s' % (res.violation, res.stdout[-3000:]))
  k = 250 if tier == 'quick' else 4000
  cc.replay_behaviours(rep, 'GinCore_Sim_oper', num=k // 2, depth=14, nontrivial=_nontrivial, generate=k * 3, replay_fn=_replay)
  cc.replay_behaviours(rep, 'GinCore_Sim_oper2', num=k // 2, depth=14, nontrivial=_nontrivial, generate=k * 3, replay_fn=_replay,
                       seed_off=9)
  rep.extra.update(STATS)
  cc.trace_validate(rep, 50 if tier == 'quick' else 600, seed_off=107)
  return rep.finish()


def replay(path):
  import json
  with open(path) as fh:
    blob = json.load(fh)
  d = _replay(blob['replay']['behaviour'])
  print('divergence: %s' % json.dumps(d, default=str)[:2000] if d else 'conforms')
  if d:
    print('VIOLATION property=C07 replay=%s' % path)
  return 1 if d else 0
