"""Randomised driver over the real gin (code -> specification): histories beyond the constants of the exhaustive
GinCore models, recorded as traces for GinCore_Trace.tla."""
import random

from ginverif import adapter_core as A
from ginverif import core

PARAMS = ['p', 'q', 'r']


def D(p):
  return ['lit', 'd_' + p]


def random_descriptor(rng, sel, body='record', allow_req=False):
  kind = rng.choice(['fn', 'fn', 'cls'])
  npos = rng.randint(0, 3)
  pos = PARAMS[:npos]
  npd = rng.randint(0, npos)
  kwo = rng.sample(['k', 'j'], rng.randint(0, 2))
  kwd = [k for k in kwo if rng.random() < 0.6]
  dflt = [[p, D(p)] for p in pos[npos - npd:]] + [[k, D(k)] for k in kwd]
  if allow_req:
    dflt = [[p, ['req'] if rng.random() < 0.3 else v] for p, v in dflt]
  names = pos + kwo
  allow, deny = ['*'], []
  r = rng.random()
  if names and r < 0.2:
    deny = [rng.choice(names)]
  elif names and r < 0.35:
    allow = rng.sample(names, rng.randint(1, len(names)))
  # gin rejects a signature-level REQUIRED on a parameter that is not configurable
  dflt = [[p, (D(p) if v == ['req'] and (p in deny or (allow != ['*'] and p not in allow)) else v)] for p, v in dflt]
  api = rng.choice(['configurable', 'external', 'register'])
  # a function that carries somebody else's functools.wraps decorator when it is registered
  deco = kind == 'fn' and api != 'configurable' and not any(v == ['req'] for _, v in dflt) and rng.random() < 0.2
  return dict(sel=sel, kind=kind, pos=pos, npd=npd, kwo=kwo, kwd=kwd, va=rng.random() < 0.3, vk=rng.random() < 0.3,
              dflt=dflt, allow=allow, deny=deny, body=body, api=api, deco=deco, twin=[])


GIN_MACRO = dict(sel=['gin', 'macro'], kind='fn', pos=['value'], npd=0, kwo=[], kwd=[], va=False, vk=False, dflt=[],
                 allow=['*'], deny=[], body='macro', api='builtin', deco=False, twin=[])
GIN_CONSTANT = dict(sel=['gin', 'constant'], kind='fn', pos=[], npd=0, kwo=[], kwd=[], va=False, vk=False, dflt=[],
                    allow=['*'], deny=[], body='const', api='builtin', deco=False, twin=[])
GIN_SINGLETON = dict(sel=['gin', 'singleton'], kind='fn', pos=['constructor'], npd=0, kwo=[], kwd=[], va=False, vk=False,
                     dflt=[], allow=['*'], deny=[], body='singleton', api='builtin', deco=False, twin=[])
SCOPES = ['a', 'b', 'ab', 'W', 's1']
CONST_NAMES = [['X'], ['m', 'X'], ['n', 'm', 'X'], ['n', 'Y']]


def scope_seq(s):
  return [c for c in s.split('/')] if s else []


def post_of(world):
  p = world.project()
  return dict(
      cfg=[[scope_seq(sc), sel.split('.'), plist] for (sc, sel), plist in p['cfg'].items()],
      okeys=[[scope_seq(sc), sel.split('.')] for sc, sel in sorted(p['okeys'])],
      oper=[[scope_seq(sc), sel.split('.'), param, __import__('json').loads(v)] for sc, sel, param, v in sorted(p['oper'])],
      stack=p['stack'], locked=p['locked'], interactive=p['interactive'],
      consts=[[n.split('.'), __import__('json').loads(v)] for n, v in sorted(p['consts'])],
      singles=[scope_seq(s) for s in sorted(p['singles'])], imports=sorted(p['imports']))


def random_value(rng, producers, depth=0, with_refs=True):
  r = rng.random()
  if with_refs and producers and r < 0.3:
    sel = rng.choice(producers)
    sc = rng.choice([[], [], ['a'], ['b'], ['a', 'b'], ['ab']])      # few scopes, so that ambient scopes often end with them
    ev = 'call' if (sc or rng.random() < 0.8) else 'bare'      # scoped bare references are not observable by identity
    return ['ref', sel, sc, ev]
  if depth < 2 and r < 0.5:
    kind = rng.choice(['list', 'tuple', 'dict'])
    items = [random_value(rng, producers, depth + 1, with_refs) for _ in range(rng.randint(0, 3))]
    if kind == 'dict':
      return ['dict', [[['lit', str(i + 1)], v] for i, v in enumerate(items[:2])]]
    return [kind, items]
  if r < 0.6:
    return ['nonlit', 'n%d' % rng.randint(1, 2)]
  return ['lit', rng.choice(['1', '2', '3'])]


def drive(rng, length=14):
  """One random history over the real gin.  Returns dict(reg=[descriptors], events=[...])."""
  consumer = random_descriptor(rng, ['m', 'f'], allow_req=True)
  g = random_descriptor(rng, ['m', 'g'])
  h = random_descriptor(rng, ['n', 'h'])
  g['dflt'] = [[p, D(p)] for p in g['pos']] + [[k, D(k)] for k in g['kwo']]      # producers are callable without arguments
  g['npd'], g['kwd'] = len(g['pos']), list(g['kwo'])
  h['dflt'] = [[p, D(p)] for p in h['pos']] + [[k, D(k)] for k in h['kwo']]
  h['npd'], h['kwd'] = len(h['pos']), list(h['kwo'])
  reg = [consumer, g, h, GIN_MACRO, GIN_CONSTANT, GIN_SINGLETON]
  twin = None
  if consumer['kind'] == 'fn' and not consumer['deco'] and rng.random() < 0.4:
    # the consumer's function registered a second time, under another name and with other allow / deny lists
    names = consumer['pos'] + consumer['kwo']
    free = [n for n in names if [n, ['req']] not in consumer['dflt']]
    allow, deny = ['*'], []
    r = rng.random()
    if free and r < 0.4:
      deny = [rng.choice(free)]
    elif names and r < 0.7:
      allow = sorted(set(rng.sample(names, rng.randint(1, len(names))) + [n for n in names if n not in free]))
    twin = dict(consumer, sel=['m', 'f2'], allow=allow, deny=deny, api=rng.choice(['external', 'register']), twin_of='m.f', twin=['m', 'f'])
    reg.insert(1, twin)
  world = A.World(reg, pool_seed=rng.randrange(1 << 30))
  events = []
  depth = 0
  unlocks = 0
  try:
    bad = {k: v for k, v in world.reg_status.items() if v != 'ok'}
    if bad:       # every descriptor the driver builds is valid: gin must accept it
      return dict(reg=reg, events=[], reg_failed=bad)
    for _ in range(length):
      r = rng.random()
      if r < 0.3:
        c = rng.choice([consumer, consumer, g, h] + ([twin, twin] if twin else []))
        names = (['self'] if c['kind'] == 'cls' else []) + c['pos'] + c['kwo'] + ['z']
        sc = rng.choice([[], [], ['a'], ['ab'], ['a', 'b'], ['a', 'b', 'ab'], ['b', 'a'], ['W']])
        producers = [['m', 'g'], ['n', 'h']] if c in (consumer, twin) else ([['n', 'h']] if c is g else [])
        v = random_value(rng, producers)
        if c is consumer and rng.random() < 0.08:
          v = ['ref', ['gin', 'singleton'], ['s1'], 'call']
        if rng.random() < 0.1 and c is consumer:
          v = ['pct', rng.choice([['W'], ['X'], ['m', 'X'], ['Y']])]
        o = dict(op='Bind', api=rng.choice(['tuple', 'tuple', 'string', 'text', 'block']), scope=sc, sel=c['sel'],
                 param=rng.choice(names), val=v)
      elif r < 0.36:
        o = dict(op='Bind', api=rng.choice(['tuple', 'text']), scope=[rng.choice(['W', 'X'])], sel=['gin', 'macro'], param='value',
                 val=rng.choice([['lit', '1'], ['lit', '2'], ['ref', ['m', 'g'], [], 'call']]))
      elif r < 0.40:
        o = dict(op='Bind', api='tuple', scope=['s1'], sel=['gin', 'singleton'], param='constructor', val=['ref', ['n', 'h'], [], 'bare'])
      elif r < 0.52 and depth < 5:
        how = rng.choice(['name', 'name', 'list', 'clear', 'invalid'])
        few = ['a', 'b', 'ab', 'a', 'b', 'W']
        comps = {'name': [rng.choice(few) for _ in range(rng.choice([1, 1, 2]))],
                 'list': [rng.choice(few) for _ in range(rng.randint(0, 3))], 'clear': [], 'invalid': []}[how]
        o = dict(op='EnterScope', how=how, comps=comps)
      elif r < 0.60 and depth > 0:
        o = dict(op='ExitScope', byException=rng.random() < 0.3)
      elif r < 0.84:
        c = rng.choice([consumer, consumer, consumer, g] + ([twin, twin] if twin else []))
        npos = rng.randint(0, len(c['pos']) + (1 if rng.random() < 0.15 else 0))
        pargs = [['req'] if rng.random() < 0.12 else ['cp', i + 1] for i in range(npos)]
        kwn = [n for n in c['pos'] + c['kwo'] + (['z'] if rng.random() < 0.1 else []) if rng.random() < 0.3]
        ckw = [[n, ['req'] if rng.random() < 0.15 else ['ck', n]] for n in kwn]
        o = dict(op='Call', sel=c['sel'], pargs=pargs, ckw=ckw)
      elif r < 0.89 and depth == 0:
        o = dict(op='Finalize')
      elif r < 0.93 and unlocks < 2:
        o = dict(op='UnlockEnter')
      elif r < 0.96 and unlocks > 0:
        o = dict(op='UnlockExit', byException=rng.random() < 0.4)
      elif r < 0.98:
        o = dict(op='DefineConstant', name=rng.choice(CONST_NAMES), val=['nonlit', rng.choice(['o1', 'o2'])], valid=rng.random() < 0.9)
      elif r < 0.985:
        o = dict(op='SetInteractive', on=rng.random() < 0.5)
      elif r < 0.99:
        o = rng.choice([dict(op='ParseImport', module=rng.choice(['colorsys', 'string', 'os.path'])),
                        dict(op='SingletonDirect', key=[rng.choice(['d1', 's1'])])])
      else:
        o = dict(op='Clear', clearConstants=rng.random() < 0.3)
      got = world.apply(o)
      if o['op'] == 'EnterScope' and got['status'] == 'ok':
        depth += 1
      if o['op'] == 'ExitScope':
        depth -= 1
      if o['op'] == 'UnlockEnter':
        unlocks += 1
      if o['op'] == 'UnlockExit':
        unlocks -= 1
      ev = dict(o)
      ev['status'] = got['status']
      if o['op'] == 'SingletonDirect':
        ev['fresh'] = got.get('fresh')
      if o['op'] == 'Call':
        for k in ('delivered', 'kw', 'va', 'missing', 'ran', 'evals'):
          ev[k] = got.get(k, [])
        ev['ret'] = got.get('ret', ['none'])
        ev['evals'] = [dict(sel=e['sel'], scope=e['scope'], delivered=e['delivered']) for e in ev['evals']]
      ev['post'] = post_of(world)
      events.append(ev)
    return dict(reg=reg, events=events)
  finally:
    world.close()
