"""Run TLC (exhaustive / simulate / trace validation) and parse what it printed.

Everything TLC needs is copied into a scratch directory that is removed
afterwards; nothing a registered command needs lives under /tmp between runs.
"""
import json
import os
import re
import shutil
import subprocess
import tempfile
import time

SPEC_DIR = os.path.join(os.path.dirname(os.path.dirname(os.path.dirname(os.path.abspath(__file__)))), 'spec')
JAR = '/opt/veriftools/tla/tla2tools.jar'
DEPS = '/opt/veriftools/tla/CommunityModules-deps.jar'

# Page faults are very expensive in this sandbox (a 14 GB default heap spends most
# of its time in the kernel); a small, reused young generation is 3-5x faster.
JVM = ['-Xms512m', '-Xmx6g', '-Xmn384m', '-XX:+UseParallelGC', '-XX:ParallelGCThreads=4']


class TLCError(Exception):
  """Machinery failure: TLC crashed, the spec does not parse, ..."""


class Result:

  def __init__(self):
    self.ok = False            # finished without reporting any error
    self.violation = None      # name of violated invariant / property, or 'deadlock'
    self.generated = 0
    self.distinct = 0
    self.depth = 0
    self.wall = 0.0
    self.stdout = ''
    self.coverage = {}         # action name -> (distinct, total)
    self.prints = []           # lines printed by PrintT / Print
    self.cmd = ''
    self.timed_out = False

  def summary(self):
    return dict(generated=self.generated, distinct=self.distinct, depth=self.depth,
                wall_s=round(self.wall, 2), violation=self.violation)


def scratch(prefix='ginverif_'):
  base = os.environ.get('GINVERIF_TMP') or tempfile.gettempdir()
  return tempfile.mkdtemp(prefix=prefix, dir=base)


def run(module, cfg, workers=16, simulate=None, depth=None, seed=None, timeout=3600,
        env=None, coverage=False, workdir=None, keep=False, extra=(), dfs_queue=False,
        expect_violation=False):
  """Runs TLC on spec/<module>.tla with spec/<cfg>.

  simulate: None for breadth-first model checking, or a dict(num=N) for -simulate.
  Returns a Result.  Raises TLCError for machinery failures (parse errors, crashes).
  """
  own = workdir is None
  wd = workdir or scratch()
  try:
    for f in os.listdir(SPEC_DIR):
      if f.endswith('.tla') or f.endswith('.cfg'):
        shutil.copy(os.path.join(SPEC_DIR, f), wd)
    jvm = list(JVM)
    if dfs_queue:
      jvm.append('-Dtlc2.tool.queue.IStateQueue=StateDeque')
    cmd = ['java'] + jvm + ['-cp', JAR + ':' + DEPS, 'tlc2.TLC']
    if simulate is not None:
      spec = ','.join('%s=%s' % kv for kv in simulate.items())
      cmd += ['-simulate', spec]
      if depth is not None:
        cmd += ['-depth', str(depth)]
    if seed is not None:
      cmd += ['-seed', str(seed)]
    cmd += ['-workers', str(workers), '-metadir', os.path.join(wd, 'meta'), '-noGenerateSpecTE']
    if coverage:
      cmd += ['-coverage', '1']
    cmd += list(extra)
    cmd += ['-config', cfg, module + '.tla']
    e = dict(os.environ)
    e.update(env or {})
    res = Result()
    res.cmd = ' '.join(cmd)
    t0 = time.time()
    try:
      p = subprocess.run(cmd, cwd=wd, env=e, stdout=subprocess.PIPE, stderr=subprocess.STDOUT,
                         timeout=timeout, text=True, errors='replace')
      out = p.stdout
      rc = p.returncode
    except subprocess.TimeoutExpired as ex:
      out = ex.stdout if isinstance(ex.stdout, str) else (ex.stdout or b'').decode('utf8', 'replace')
      rc = -9
      res.timed_out = True
      subprocess.run(['pkill', '-f', 'metadir ' + os.path.join(wd, 'meta')], check=False)
    res.wall = time.time() - t0
    res.stdout = out
    _parse(res, out)
    if res.timed_out:
      return res
    if 'Parsing or semantic analysis failed' in out or '***Parse Error***' in out:
      raise TLCError('spec does not parse:\n' + out[-3000:])
    if res.violation is None and rc not in (0,):
      # TLC exit codes: 0 ok, 10-13 violations, others errors
      if rc in (10, 11, 12, 13):
        res.violation = res.violation or 'unknown(rc=%d)' % rc
      else:
        raise TLCError('TLC failed rc=%s:\n%s' % (rc, out[-4000:]))
    res.ok = res.violation is None
    return res
  finally:
    if own and not keep:
      shutil.rmtree(wd, ignore_errors=True)


_RE_GEN = re.compile(r'^(\d[\d,]*) states generated, (\d[\d,]*) distinct states found', re.M)
_RE_SIM = re.compile(r'The number of states generated: (\d[\d,]*)')
_RE_DEPTH = re.compile(r'The depth of the complete state graph search is (\d+)')
_RE_INV = re.compile(r'Error: Invariant (\S+) is violated')
_RE_PROP = re.compile(r'Error: Action property (\S+) is violated|Error: Temporal properties were violated')
_RE_COV = re.compile(r'^<(\w+) line (\d+), col \d+ to line \d+, col \d+ of module (\w+)>: (\d+):(\d+)', re.M)


def _num(s):
  return int(s.replace(',', ''))


def _parse(res, out):
  m = None
  for m in _RE_GEN.finditer(out):
    pass
  if m:
    res.generated, res.distinct = _num(m.group(1)), _num(m.group(2))
  m = _RE_SIM.search(out)
  if m:
    res.generated = _num(m.group(1))
    res.distinct = res.distinct or res.generated
  m = _RE_DEPTH.search(out)
  if m:
    res.depth = int(m.group(1))
  m = _RE_INV.search(out)
  if m:
    res.violation = m.group(1)
  else:
    m = _RE_PROP.search(out)
    if m:
      res.violation = m.group(1) or 'temporal'
    elif 'Error: Deadlock reached' in out:
      res.violation = 'deadlock'
    elif 'Error: Assumption' in out:
      res.violation = 'assumption'
    elif re.search(r'^Error: ', out, re.M) and 'Error: The behavior up to' not in out:
      m2 = re.search(r'^Error: (.*)$', out, re.M)
      res.violation = 'error: ' + (m2.group(1) if m2 else '?')
  for m in _RE_COV.finditer(out):
    name = m.group(1)
    d, t = int(m.group(4)), int(m.group(5))
    od, ot = res.coverage.get(name, (0, 0))
    res.coverage[name] = (od + d, ot + t)
  res.prints = [l for l in out.splitlines() if l.startswith('<<') or l.startswith('"')]


def parse_tla_tuple(line):
  """Parses a PrintT'ed flat tuple of ints/strings like <<"VERDICT", 1, 3, 4>>."""
  body = line.strip()
  assert body.startswith('<<') and body.endswith('>>'), line
  body = body[2:-2]
  out = []
  for tok in re.findall(r'"[^"]*"|-?\d+|TRUE|FALSE', body):
    if tok.startswith('"'):
      out.append(tok[1:-1])
    elif tok in ('TRUE', 'FALSE'):
      out.append(tok == 'TRUE')
    else:
      out.append(int(tok))
  return out


def export_behaviours(module, cfg, num, depth, seed, env=None, timeout=1800, workers=1):
  """Runs `tlc -simulate` on a *_Sim module whose CONSTRAINT writes one JSON file per
  behaviour into $OUT_DIR; returns (list of behaviours, Result)."""
  wd = scratch()
  try:
    out_dir = os.path.join(wd, 'out')
    os.mkdir(out_dir)
    e = dict(env or {})
    e['OUT_DIR'] = out_dir
    e['SIM_DEPTH'] = str(depth)
    res = run(module, cfg, workers=workers, simulate=dict(num=num), depth=depth, seed=seed,
              env=e, timeout=timeout, workdir=wd)
    if res.violation:
      raise TLCError('simulation reported %s:\n%s' % (res.violation, res.stdout[-3000:]))
    behs = []
    for f in sorted(os.listdir(out_dir), key=lambda x: int(re.sub(r'\D', '', x) or 0)):
      with open(os.path.join(out_dir, f)) as fh:
        try:
          behs.append(json.load(fh))
        except ValueError:
          pass  # a partially written file when TLC stopped
    return behs, res
  finally:
    shutil.rmtree(wd, ignore_errors=True)


def validate_traces(module, cfg, traces, env=None, timeout=1800, dfs_queue=False):
  """Batched trace validation.  `traces` is a list of event lists; the *_Trace module
  reads them from $TRACE_FILE, and its POSTCONDITION prints one
  <<"VERDICT", i, furthest, needed>> line per trace.
  Returns (list of (accepted, furthest_index) per trace, Result)."""
  wd = scratch()
  try:
    tf = os.path.join(wd, 'traces.json')
    with open(tf, 'w') as fh:
      json.dump(traces, fh)
    e = dict(env or {})
    e['TRACE_FILE'] = tf
    res = run(module, cfg, workers=1, env=e, timeout=timeout, workdir=wd, dfs_queue=dfs_queue)
    verdicts = {}
    for line in res.prints:
      if line.startswith('<<"VERDICT"'):
        t = parse_tla_tuple(line)
        verdicts[t[1]] = (t[2] >= t[3], t[2])
    if res.violation and not res.violation.startswith('C'):
      raise TLCError('trace validation failed to run (%s):\n%s' % (res.violation, res.stdout[-4000:]))
    if len(verdicts) != len(traces) and not res.violation:
      raise TLCError('missing verdict lines (%d of %d):\n%s' % (len(verdicts), len(traces), res.stdout[-4000:]))
    return [verdicts.get(i + 1, (False, 0)) for i in range(len(traces))], res
  finally:
    shutil.rmtree(wd, ignore_errors=True)
