"""Adapter between the SelectorMap specification and gin.selector_map.SelectorMap.

Only the public API of the real object is used: the projection of a real map is
what its read-only methods answer for a universe of query names.
"""
import random

from ginverif import core


def dotted(seq):
  return '.'.join(seq)


def undot(s):
  return s.split('.')


class Real:
  """A family of real SelectorMap objects addressed by handle name."""

  def __init__(self):
    core.import_gin()
    from gin import selector_map
    self.cls = selector_map.SelectorMap
    self.h = {'h1': self.cls()}

  def apply(self, op, a):
    """Executes one abstract action; returns 'ok' or the exception class name."""
    try:
      if op == 'Insert':
        self.h[a['h']][dotted(a['n'])] = a['v']
      elif op == 'Pop':
        self.h[a['h']].pop(dotted(a['n']))
      elif op == 'Copy':
        self.h[a['g']] = self.h[a['h']].copy()
      elif op == 'Clear':
        self.h[a['h']].clear()
      elif op == 'Drop':
        del self.h[a['h']]
      else:
        raise AssertionError(op)
      return 'ok'
    except (KeyError, ValueError) as e:
      return type(e).__name__

  def observe(self, queries, names):
    """What the read-only API answers, in the JSON shape of the trace spec."""
    out = {}
    for h, m in self.h.items():
      items = sorted([undot(k), v] for k, v in m.items())
      matching, getmatch, minimal = [], [], []
      for q in queries:
        qs = dotted(q)
        matching.append([q, sorted(undot(x) for x in m.matching_selectors(qs))])
        try:
          sentinel = object()
          r = m.get_match(qs, sentinel)
          getmatch.append([q, 'none', 0] if r is sentinel else [q, 'one', r])
        except KeyError:
          getmatch.append([q, 'ambiguous', 0])
        # public consistency of the remaining read-only methods with `items`
        assert (qs in m) == (qs in dict(m.items())), 'contains disagrees with items'
        assert m.get(qs, None) == dict(m.items()).get(qs, None), 'get disagrees with items'
        assert sorted(map(str, m.get_all_matches(qs))) == sorted(
            str(m[x]) for x in m.matching_selectors(qs)), 'get_all_matches disagrees'
      assert len(m) == len(list(m.items()))
      for n in names:
        try:
          minimal.append([n, undot(m.minimal_selector(dotted(n)))])
        except KeyError:
          minimal.append([n, ['KeyError']])
      out[h] = dict(items=items, matching=matching, getmatch=getmatch, minimal=minimal)
    return out


def spec_obs_to_json(obs):
  """ObserveAll as exported by SelectorMap_Sim -> the same JSON shape as Real.observe."""
  out = {}
  for h, o in (obs.items() if isinstance(obs, dict) else []):
    items = sorted([e['name'], e['val']] for e in o['items'])
    matching = sorted([e['q'], sorted(e['m'])] for e in o['matching'])
    getmatch = sorted([e['q'], e['r'][0], e['r'][1] if e['r'][0] == 'one' else 0] for e in o['getmatch'])
    minimal = sorted([e['n'], e['m']] for e in o['minimal'])
    out[h] = dict(items=items, matching=matching, getmatch=getmatch, minimal=minimal)
  return out


def normalise(o):
  return {h: dict(items=sorted(v['items']), matching=sorted(v['matching']),
                  getmatch=sorted(v['getmatch']), minimal=sorted(v['minimal'])) for h, v in o.items()}


def replay(beh):
  """Steps one exported behaviour through real objects.
  Returns None if the code conforms, else a dict describing the first divergence."""
  real = Real()
  queries = sorted(e['q'] for e in beh[0]['obs']['h1']['matching'])
  names = sorted(e['n'] for e in beh[0]['obs']['h1']['minimal'])
  for i, step in enumerate(beh):
    st = step['st']
    if i > 0:
      act = st['_action']
      got = real.apply(act['name'], act['context'])
      if got != st['last']:
        return dict(step=i, action=act['name'], args=act['context'], clause='result',
                    expected=st['last'], got=got)
    want = normalise(spec_obs_to_json(step['obs']))
    try:
      got = normalise(real.observe(queries, names))
    except Exception as e:  # pylint: disable=broad-except
      return dict(step=i, clause='api-consistency', action=st.get('_action', {}).get('name'),
                  got='%s: %s' % (type(e).__name__, e))
    if got != want:
      for h in sorted(set(want) | set(got)):
        for k in ('items', 'matching', 'getmatch', 'minimal'):
          w, g = want.get(h, {}).get(k), got.get(h, {}).get(k)
          if w != g:
            diff = [x for x in (g or []) if x not in (w or [])][:3]
            return dict(step=i, action=st.get('_action', {}).get('name'), clause=k, handle=h,
                        args=st.get('_action', {}).get('context'),
                        expected=[x for x in (w or []) if x not in (g or [])][:3], got=diff)
  return None


def actions_of(beh):
  return [[s['st']['_action']['name'], s['st']['_action']['context']] for s in beh[1:]]


# ---------------------------------------------------------------------------
# code -> spec: randomised driver recording traces


def random_trace(rng, length, comps=('a', 'b', 'c', 'd'), maxdepth=4):
  real = Real()
  pool = []
  for _ in range(rng.randint(3, 7)):
    pool.append([rng.choice(comps) for _ in range(rng.randint(1, maxdepth))])
  # make suffix relations likely
  for n in list(pool):
    if len(n) > 1 and rng.random() < 0.7:
      pool.append(n[rng.randint(1, len(n) - 1):])
    if rng.random() < 0.4:
      pool.append([rng.choice(comps)] + n)
  names = sorted(set(map(tuple, pool)))
  names = [list(n) for n in names]
  queries = set(map(tuple, names))
  for n in names:
    for i in range(1, len(n)):
      queries.add(tuple(n[i:]))
  queries.add(('zz',))
  queries.add(('zz', names[0][-1]))
  queries = [list(q) for q in sorted(queries)]
  trace = []
  handles = ['h1', 'h2', 'h3']
  for _ in range(length):
    alive = sorted(real.h)
    r = rng.random()
    h = rng.choice(alive)
    if r < 0.45:
      op, a = 'Insert', dict(h=h, n=rng.choice(names), v=rng.choice([1, 2]))
    elif r < 0.75:
      present = [undot(k) for k, _ in real.h[h].items()]
      n = rng.choice(present) if present and rng.random() < 0.8 else rng.choice(names)
      op, a = 'Pop', dict(h=h, n=n)
    elif r < 0.87 and len(alive) < len(handles):
      g = rng.choice([x for x in handles if x not in alive])
      op, a = 'Copy', dict(h=h, g=g)
    elif r < 0.93 and len(alive) > 1:
      op, a = 'Drop', dict(h=h)
    elif r < 0.97:
      op, a = 'Clear', dict(h=h)
    else:
      continue
    last = real.apply(op, a)
    try:
      obs = real.observe(queries, names)
    except Exception as e:  # pylint: disable=broad-except
      # a read-only method failed or contradicted `items`: report it as an event TLC cannot match
      trace.append(dict(op='ObserveFailed:%s: %s' % (type(e).__name__, e), h=a.get('h', ''), g='', n=[], v=0,
                        last=last, obs={}))
      return trace
    ev = dict(op=op, h=a.get('h', ''), g=a.get('g', ''), n=a.get('n', []), v=a.get('v', 0), last=last,
              obs=obs)
    trace.append(ev)
  return trace
