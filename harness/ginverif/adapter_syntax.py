"""Adapter between GinSyntax.tla (abstract token kinds) and the real parser.

spec -> code: concretise an abstract token string with seeded lexemes / layouts, parse the text
with the real gin, compare the class of outcome, the shape of the value, and - for pure Python
literals - exact equality with what Python itself evaluates the text to.
code -> spec: tokenize arbitrary text with CPython's tokenizer and abstract it to token kinds.
"""
import ast
import io
import random
import tokenize
import warnings

warnings.simplefilter("ignore", SyntaxWarning)

from ginverif import core

NUMS = ['1', '0', '17', '0x1F', '1_000', '1.5', '1e3', '.5', '100000000000000000000', '0o17', '0b11', '1j', '3.',
        '1E-7', '0.0', '2.5e+300', '7_7.0_1']
STRS = ["'a'", '"b c"', "r'\\d'", "u'x'", "'q\\'uote'", "'#notcomment'", '"""tri "q" ple"""', "'\\n\\t\\\\'", "'\\x41\\u00e9'",
        '" lead "', "R\"raw\\\"\"", "'[1, 2]'", "'a' ", "'''it's'''",
        # raw characters that str.splitlines() (but not the tokenizer's readline) treats as line boundaries, and a
        # triple-quoted string spanning lines
        "'form\x0cfeed'", '"""fs\x1cgs\x1d"""', "'nel\x85'", "'ls\u2028ps\u2029'", "'vt\x0btab\t'", "'''line1\nline2'''"]
EMPTY = ["''", '""', "''''''", '""""""', "r''", 'u""']
BYTES = ["b'a'", 'B"b"', "rb'x'", "b''", "Rb'\\d'", "bR\"q\"", "b'\\x00\\xff'", "b'ff\x0c'", "b'''l1\nl2'''"]
KNAMES = ['True', 'False', 'None']
XNAMES = ['foo', 'true', 'nan', 'inf', 'none', 'x1', '_']
REF_NAME = 'gvsyn_ref'
MACRO_NAME = 'gvsyn_mac'
NLS = ['\n', ' # comment\n', '\n\n   ', '#c\n', '  \n\t', ' # [ unbalanced ( in comment\n']

_SETUP = {}


def setup():
  """Registers the probe configurable that '@x' refers to."""
  gin = core.import_gin()
  from gin import config
  if not _SETUP:
    def gvsyn_ref():
      return 'called'
    gvsyn_ref.__module__ = 'gvsyn'
    _SETUP['ref'] = gin.external_configurable(gvsyn_ref, name=REF_NAME, module='gvsyn')

    def gvsyn_probe(p=None):
      return p
    gvsyn_probe.__module__ = 'gvsyn'
    _SETUP['probe'] = gin.external_configurable(gvsyn_probe, name='gvsyn_probe', module='gvsyn')
  return gin, config


def concretise(toks, rng):
  """Text for an abstract token string."""
  parts = []
  prev = None
  for i, t in enumerate(toks):
    if t == 'n':
      lex = rng.choice(NUMS)
    elif t == 's':
      lex = rng.choice(STRS).strip()
    elif t == 'e':
      lex = rng.choice(EMPTY)
    elif t == 'y':
      lex = rng.choice(BYTES)
    elif t == 'k':
      lex = rng.choice(KNAMES)
    elif t == 'x':
      if prev == '@':
        lex = REF_NAME
      elif prev == '%':
        lex = MACRO_NAME
      else:
        lex = rng.choice(XNAMES)
    elif t == 'nl':
      lex = rng.choice(NLS)
    else:
      lex = t
    # separators: tokens that would merge (or change meaning) when glued must be kept apart
    if parts:
      alnum_prev = prev in ('n', 's', 'e', 'y', 'k', 'x')
      alnum_cur = t in ('n', 's', 'e', 'y', 'k', 'x')
      glue_risky = (alnum_prev and alnum_cur) or (prev == '-' and t == '-') or (prev == 'n' and t in ('.',)) \
          or (prev in ('@', '%') and False)
      if prev == 'nl':
        sep = rng.choice(['', ' ', '    '])
      elif glue_risky:
        sep = rng.choice([' ', '  '])
      elif prev in ('@', '%'):
        sep = ''
      else:
        sep = rng.choice(['', ' ', '', '  '])
      parts.append(sep)
    parts.append(lex)
    prev = t
  return ''.join(parts)


def shape(v, config):
  """Shape of a real parsed value, in the specification's vocabulary (without string pieces)."""
  if isinstance(v, config.ConfigurableReference):
    if v.selector == 'gin.macro' or v.selector == 'gin.constant':
      return ['macro']
    return ['ref', bool(v.evaluate)]
  if isinstance(v, bool) or v is None:
    return ['const']
  if isinstance(v, (int, float, complex)):
    # sign of a zero / complex is not a shape matter
    return ['numlike']
  if isinstance(v, str):
    return ['str']
  if isinstance(v, bytes):
    return ['bytes']
  if isinstance(v, list):
    return ['list', [shape(x, config) for x in v]]
  if isinstance(v, tuple):
    return ['tuple', [shape(x, config) for x in v]]
  if isinstance(v, dict):
    return ['dict-n', len(v)]
  return ['other', type(v).__name__]


def spec_shape(v):
  t = v[0]
  if t in ('num', 'neg'):
    return ['numlike']
  if t in ('str', 'bytes'):
    return [t]
  if t in ('const', 'macro'):
    return [t]
  if t == 'ref':
    return ['ref', bool(v[1])]
  if t in ('list', 'tuple'):
    return [t, [spec_shape(x) for x in v[1]]]
  if t == 'dict':
    # duplicate keys collapse in a real dict: only an upper bound on the size is a shape matter
    return ['dict-n', len(v[1])]
  return ['?', t]


def same_shape(want, got):
  if want[0] == 'dict-n' and got[0] == 'dict-n':
    return 1 <= got[1] <= want[1] or (want[1] == 0 and got[1] == 0)
  if want[0] in ('list', 'tuple') and got[0] == want[0]:
    return len(want[1]) == len(got[1]) and all(same_shape(a, b) for a, b in zip(want[1], got[1]))
  return want == got


def exact_equal(a, b):
  """Recursive type identity plus repr equality (distinguishes -0.0, 1 vs True vs 1.0, str vs bytes)."""
  if type(a) is not type(b):
    return False
  if isinstance(a, (list, tuple)):
    return len(a) == len(b) and all(exact_equal(x, y) for x, y in zip(a, b))
  if isinstance(a, dict):
    return len(a) == len(b) and all(exact_equal(ka, kb) and exact_equal(a[ka], b[kb]) for ka, kb in zip(a, b))
  return repr(a) == repr(b)


def has_ref(v):
  t = v[0]
  if t in ('ref', 'macro'):
    return True
  if t in ('list', 'tuple'):
    return any(has_ref(x) for x in v[1])
  if t == 'dict':
    return any(has_ref(k) or has_ref(x) for k, x in v[1])
  return False


_HIST = dict(n=0, prev=None)


def real_parse(text, prev=None, fresh=False):
  """Parses `gvsyn_probe.p = <text>` with the real gin.  Returns ('ok', value) or ('err', class name).
  The configuration is cleared only every few cases: a literal must be stored exactly whatever the parameter was bound
  to before (the text parsed last is kept in LAST_PREV for replay files).  `prev`: replay that history explicitly."""
  gin, config = setup()
  _HIST['n'] += 1
  if prev is not None or fresh or _HIST['n'] % 5 == 0:
    gin.clear_config()
    _HIST['prev'] = None
    if prev is not None:
      try:
        gin.parse_config('gvsyn.gvsyn_probe.p = ' + prev)
        _HIST['prev'] = prev
      except Exception:  # pylint: disable=broad-except
        pass
  LAST_PREV[0] = _HIST['prev']
  try:
    if _HIST['n'] % 3 == 1 and '\n' not in text.strip():
      # the same binding written as the member of a block: nothing about the value grammar depends on the form
      gin.parse_config('gvsyn.gvsyn_probe:\n  p = ' + text.strip() + '\n')
    else:
      gin.parse_config('gvsyn.gvsyn_probe.p = ' + text)
    _HIST['prev'] = text
    return 'ok', config.query_parameter('gvsyn.gvsyn_probe.p')
  except (SyntaxError, tokenize.TokenError) as e:
    return 'err', type(e).__name__
  except Exception as e:  # pylint: disable=broad-except
    return 'other', '%s: %s' % (type(e).__name__, e)


LAST_PREV = [None]


def check_case(toks, outcome, text, prev=None):
  """Compares the real parser on `text` with the specification's outcome for `toks`.
  Returns None or a divergence dict."""
  _, config = setup()
  kind, val = real_parse(text, prev=prev)
  if outcome[0] == 'err':
    if kind != 'err':
      return dict(clause='rejects', toks=toks, text=text, expected='SyntaxError / TokenError', got=[kind, repr(val)[:200]])
    return None
  want = outcome[1]
  if kind != 'ok':
    return dict(clause='accepts', toks=toks, text=text, expected=['ok', want], got=[kind, val])
  if not same_shape(spec_shape(want), shape(val, config)):
    return dict(clause='shape', toks=toks, text=text, expected=spec_shape(want), got=shape(val, config))
  if not has_ref(want):
    try:
      py = ast.literal_eval(text.strip())
    except Exception as e:  # pylint: disable=broad-except
      return dict(clause='oracle', toks=toks, text=text, expected='python evaluates it', got='%s: %s' % (type(e).__name__, e))
    if not exact_equal(py, val):
      return dict(clause='python-value', toks=toks, text=text, expected=repr(py)[:300], got=repr(val)[:300])
  return None


def abstract(text):
  """CPython tokens of `text` -> abstract kinds (what GinSyntax sees).  Unknown tokens become '?'."""
  kinds = []
  depth = 0
  try:
    for tok in tokenize.generate_tokens(io.StringIO(text).readline):
      tt, s = tok.type, tok.string
      if tt in (tokenize.NEWLINE, tokenize.ENDMARKER, tokenize.INDENT, tokenize.DEDENT):
        continue
      if tt in (tokenize.NL, tokenize.COMMENT):
        if depth > 0:
          kinds.append('nl')
        continue
      if tt == tokenize.NUMBER:
        try:
          ast.literal_eval(s)          # the lenient tokenize module also yields '0777' or '1__0' as NUMBER
          kinds.append('n')
        except Exception:  # pylint: disable=broad-except
          kinds.append('?')
      elif tt == tokenize.STRING:
        try:
          v = ast.literal_eval(s)
        except Exception:  # pylint: disable=broad-except
          kinds.append('?')
          continue
        kinds.append('y' if isinstance(v, bytes) else ('e' if v == '' else 's'))
      elif tt == tokenize.NAME:
        kinds.append('k' if s in KNAMES else 'x')
      elif tt == tokenize.OP and s in '-[](){},:@%':
        kinds.append(s)
        depth += s in '[({'
        depth -= s in '])}'
      else:
        kinds.append('?')
  except (tokenize.TokenError, SyntaxError, IndentationError):
    kinds.append('?')          # the tokenizer itself gave up: whatever follows cannot be a literal
  return kinds


# ---------------------------------------------------------------------------
# code -> spec: AST-directed generation of literals and near misses

def gen_value(rng, depth):
  r = rng.random()
  if depth <= 0 or r < 0.35:
    k = rng.random()
    if k < 0.3:
      return ('-' if rng.random() < 0.3 else '') + rng.choice(NUMS)
    if k < 0.6:
      n = rng.choice([1, 1, 1, 2, 3])
      pool = rng.choice([STRS + EMPTY, BYTES])
      return ' '.join(rng.choice(pool).strip() for _ in range(n))
    if k < 0.75:
      return rng.choice(KNAMES)
    if k < 0.9:
      return '@' + REF_NAME + ('()' if rng.random() < 0.5 else '')
    return '%' + MACRO_NAME
  ws = lambda: rng.choice(['', ' ', '\n  ', ' # c\n ', ''])
  n = rng.choice([0, 1, 1, 2, 3])
  if r < 0.6:
    items = [gen_value(rng, depth - 1) for _ in range(n)]
    trail = ',' if items and rng.random() < 0.4 else ''
    return '[' + ws() + (',' + ws()).join(items) + trail + ws() + ']'
  if r < 0.8:
    items = [gen_value(rng, depth - 1) for _ in range(n)]
    trail = ',' if (len(items) == 1 and rng.random() < 0.7) or (items and rng.random() < 0.3) else ''
    return '(' + ws() + (',' + ws()).join(items) + trail + ws() + ')'
  items = ['%s%s:%s%s' % (gen_key(rng), ws(), ws(), gen_value(rng, depth - 1)) for _ in range(n)]
  trail = ',' if items and rng.random() < 0.4 else ''
  return '{' + ws() + (',' + ws()).join(items) + trail + ws() + '}'


def gen_key(rng):
  return rng.choice([rng.choice(NUMS[:6]), rng.choice(STRS[:4]).strip(), rng.choice(KNAMES), "('t', 1)"])


def near_miss(rng, text):
  """A mutation that is likely to leave the literal grammar."""
  ops = ['+', '*', ' for x in y', ';', '...', '=', '!', '1 2', '[', ')', '}', ',,', '::', '- -', 'lambda: 0', '`', '$', '?']
  r = rng.random()
  if r < 0.3 and text:
    i = rng.randrange(len(text))
    return text[:i] + text[i + 1:]
  if r < 0.6:
    i = rng.randrange(len(text) + 1)
    return text[:i] + rng.choice(ops) + text[i:]
  if r < 0.8:
    return text + ' ' + rng.choice(['1', "'a'", ']', 'x', ',', '@' + REF_NAME, '+ 1', '[0]', '.real', '()'])
  return rng.choice(['{1, 2}', '1 + 2', '+1', '-(1)', '1 if True else 2', '[x for x in []]', '(1)(2)', '- - 1', '1,2',
                     '[1 2]', "{'a' 1}", "{'a': 1: 2}", '[,]', '(,)', '{,}', '[1,,2]', "'a' b'b'", '-None', "-'a'", '-True',
                     '...', 'Ellipsis', '1__0', '0777', '1e', "f'x'", '[1', '(1,', "{'a':", '1]', '--1', '~1', 'not True',
                     '1 or 2', '[*[]]', '{**{}}', '@', '%', '-@' + REF_NAME, '-%' + MACRO_NAME, '@' + REF_NAME + '(1)'])
