"""Deterministic scheduler for real Python threads running inside gin/config.py.

Exactly one thread runs at a time (a baton).  Preemption points are the `line` events of frames whose code
lives in gin/config.py (sys.settrace) and the operations of the cooperative locks and recording proxies that
replace gin's module-level locks and shared dicts for the duration of a run.  Every choice comes from a seeded
RNG, so a schedule is reproducible from (seed, programs).  The proxies append events named after the actions of
GinThreads.tla; TLC then checks that the event sequence is a behaviour of that specification.
"""
import random
import sys
import threading


class Deadlock(Exception):
  pass


class CoopLock:
  """Replacement for threading.Lock / RLock: never blocks the process, parks the thread with the scheduler."""

  def __init__(self, sched, name, reentrant):
    self.sched, self.name, self.reentrant = sched, name, reentrant
    self.owner = None
    self.count = 0

  def acquire(self, blocking=True, timeout=-1):
    me = self.sched.current()
    if me is None:                       # outside a scheduled run
      self.owner, self.count = 'main', self.count + 1
      return True
    self.sched.yield_point(me, 'lock')
    while self.owner is not None and not (self.reentrant and self.owner == me):
      self.sched.block(me, self)
    self.owner = me
    self.count += 1
    if self.count == 1:
      self.sched.on_lock(me, self.name, True)
    return True

  def release(self):
    me = self.sched.current()
    self.count -= 1
    if self.count == 0:
      if me is not None:
        self.sched.on_lock(me, self.name, False)
      self.owner = None
    if me is not None:
      self.sched.yield_point(me, 'unlock')

  __enter__ = acquire

  def __exit__(self, *a):
    self.release()


class OperDict(dict):
  """_OPERATIVE_CONFIG with recording of the accesses that matter."""
  sched = None

  def setdefault(self, key, default=None):
    s = self.sched
    me = s.current() if s else None
    if me is not None:
      s.yield_point(me, 'merge')
      s.on_merge(me, key, key not in self)
    return dict.setdefault(self, key, default)

  def items(self):
    s = self.sched
    me = s.current() if s else None
    if me is not None:
      s.yield_point(me, 'iter')
      s.on_iter(me, True)
      snapshot = []
      # iterate for real, with preemption points between entries (as formatting each entry would allow)
      for kv in dict.items(self):
        snapshot.append(kv)
        s.yield_point(me, 'iter-step')
      s.on_iter(me, False)
      return snapshot
    return dict.items(self)


class SingleDict(dict):
  sched = None

  def __contains__(self, key):
    s = self.sched
    me = s.current() if s else None
    hit = dict.__contains__(self, key)
    if me is not None:
      s.yield_point(me, 's_check')
      hit = dict.__contains__(self, key)
      s.on_single(me, 'SCheck', key, hit)
      s.yield_point(me, 's_checked')
    return hit

  def __setitem__(self, key, value):
    s = self.sched
    me = s.current() if s else None
    if me is not None:
      s.yield_point(me, 's_store')
      s.on_single(me, 'SStore', key, True)
    dict.__setitem__(self, key, value)


class Scheduler:

  def __init__(self, config, seed, preempt=0.25):
    self.config = config
    self.rng = random.Random(seed)
    self.preempt = preempt
    self.cv = threading.Condition()
    self.turn = None                 # name of the thread holding the baton
    self.threads = {}
    self.state = {}                  # name -> 'ready' | 'blocked' | 'done'
    self.blocked_on = {}
    self.errors = {}
    self.events = []
    self.ctx = {}                    # per-thread bookkeeping for event emission
    self.switches = 0
    self._names = {}

  # -- identity ---------------------------------------------------------------
  def current(self):
    return self._names.get(threading.get_ident())

  # -- instrumentation callbacks ---------------------------------------------------
  def on_lock(self, me, name, acquired):
    c = self.ctx[me]
    if name == 'oper':
      if acquired and c['op'] in ('call', 'read') and not c['locked_once']:
        c['locked_once'] = True
        c['holding'] = True
        self.events.append([me, 'WLock' if c['op'] == 'call' else 'RLock'])
      elif not acquired and c.get('holding'):
        c['holding'] = False
        self.events.append([me, 'WUnlock' if c['op'] == 'call' else 'RUnlock'])
    elif name == 'single':
      if c['op'] == 'call' and c['ctor_depth'] == 0:
        self.events.append([me, 'SLock' if acquired else 'SUnlock'])

  def on_merge(self, me, key, is_new):
    c = self.ctx[me]
    if c['op'] == 'call' and not c['merged'] and key[1] == c['sel']:
      c['merged'] = True
      owner = self.config._OPERATIVE_CONFIG_LOCK.owner
      self.events.append([me, 'WMerge' if owner == me else 'WMergeWithoutLock'])

  def on_iter(self, me, begin):
    c = self.ctx[me]
    if c['op'] == 'read' and not (c.get('iterated') and begin):
      owner = self.config._OPERATIVE_CONFIG_LOCK.owner
      if begin:
        c['iter_owner'] = owner
      elif not c.get('iterated'):
        c['iterated'] = True
        self.events.append([me, 'RIter' if c['iter_owner'] == me and owner == me else 'RIterWithoutLock'])

  def on_single(self, me, what, key, hit):
    c = self.ctx[me]
    if c['op'] == 'call' and c['ctor_depth'] == 0:
      lock = getattr(self.config, '_SINGLETONS_LOCK', None)
      owner = lock.owner if isinstance(lock, CoopLock) else None
      self.events.append([me, what if owner == me else what + 'WithoutLock'])

  # -- baton ----------------------------------------------------------------------
  def _wait_turn(self, me):
    with self.cv:
      while self.turn != me:
        self.cv.wait()

  def _give(self, to):
    with self.cv:
      self.turn = to
      self.cv.notify_all()

  def yield_point(self, me, why):
    if self.rng.random() < self.preempt:
      self.switches += 1
      self.state[me] = 'ready'
      self._give('scheduler')
      self._wait_turn(me)

  def block(self, me, lock):
    self.state[me] = 'blocked'
    self.blocked_on[me] = lock
    self._give('scheduler')
    self._wait_turn(me)
    self.state[me] = 'ready'

  # -- running --------------------------------------------------------------------
  def run(self, programs):
    """programs: name -> callable(sched, name).  Returns when every thread has finished."""
    config = self.config
    fname = config.__file__

    def tracer(frame, event, arg):
      if frame.f_code.co_filename != fname:
        return None

      def local(frame, event, arg):
        if event == 'line':
          me = self.current()
          if me is not None:
            self.yield_point(me, 'line')
        return local
      return local

    def body(name, fn):
      self._names[threading.get_ident()] = name
      self._wait_turn(name)
      sys.settrace(tracer)
      try:
        fn(self, name)
      except BaseException as e:  # pylint: disable=broad-except
        self.errors[name] = e
      finally:
        sys.settrace(None)
        self.state[name] = 'done'
        self._give('scheduler')

    for name, fn in programs.items():
      self.state[name] = 'ready'
      self.ctx[name] = dict(op=None, sel=None, merged=False, locked_once=False, holding=False, ctor_depth=0)
      # every worker carries the same Thread.name (names need not be unique): per-thread state must hang on the
      # thread itself, not on what it is called
      t = threading.Thread(target=body, args=(name, fn), daemon=True, name='gin-worker')
      self.threads[name] = t
    self.turn = 'scheduler'
    for t in self.threads.values():
      t.start()
    while True:
      alive = [n for n, s in self.state.items() if s != 'done']
      if not alive:
        break
      runnable = [n for n in alive if self.state[n] == 'ready' or
                  (self.state[n] == 'blocked' and self.blocked_on[n].owner is None)]
      if not runnable:
        raise Deadlock('threads %s are all blocked' % alive)
      nxt = self.rng.choice(sorted(runnable))
      self._give(nxt)
      self._wait_turn('scheduler')
    for t in self.threads.values():
      t.join(timeout=5)


def install(config, sched):
  """Replaces gin's module-level locks and shared dicts by cooperative / recording ones; returns an undo function."""
  saved = {}
  saved['_OPERATIVE_CONFIG_LOCK'] = config._OPERATIVE_CONFIG_LOCK
  config._OPERATIVE_CONFIG_LOCK = CoopLock(sched, 'oper', reentrant=False)
  if hasattr(config, '_SINGLETONS_LOCK'):
    saved['_SINGLETONS_LOCK'] = config._SINGLETONS_LOCK
    config._SINGLETONS_LOCK = CoopLock(sched, 'single', reentrant=True)
  saved['_OPERATIVE_CONFIG'] = config._OPERATIVE_CONFIG
  od = OperDict(config._OPERATIVE_CONFIG)
  od.sched = sched
  config._OPERATIVE_CONFIG = od
  saved['_SINGLETONS'] = config._SINGLETONS
  sd = SingleDict(config._SINGLETONS)
  sd.sched = sched
  config._SINGLETONS = sd

  def undo():
    for k, v in saved.items():
      setattr(config, k, v)
    config._OPERATIVE_CONFIG.clear()
    config._SINGLETONS.clear()
  return undo
