"""Adapter between GinRegister.tla and gin's registration APIs, plus the shape universe over which the
model's predicted observables (Predict) are checked on real objects."""
import abc
import collections
import inspect
import pickle
import sys
import types

from ginverif import core

_COUNTER = [0]


class _EqCallable:
  """A callable whose instances all compare equal."""
  __name__ = 'eq_callable'

  def __call__(self, a=1):
    return a

  def __eq__(self, other):
    return isinstance(other, _EqCallable)

  def __hash__(self):
    return 17


class RegWorld:

  def __init__(self):
    self.gin = core.import_gin()
    from gin import config
    self.config = config
    _COUNTER[0] += 1
    self.prefix = 'gvr%d' % _COUNTER[0]
    self._before = dict(config._REGISTRY.items())
    self._inv_before = dict(config._INVERSE_REGISTRY)
    config._set_config_is_locked(False)
    config._INTERACTIVE_MODE = False
    self.step = 0
    # the method's real name rotates: plain, and names that contain the name of its class ("Class.method" is about
    # the dotted structure of a selector, not about substrings)
    self.mname = ['meth', 'meth_K', 'Kmeth'][_COUNTER[0] % 3]
    mod = types.ModuleType(self.prefix)       # objects live in the module they are registered under
    src = ('def f(a=1):\n  return a\n'
           'def g(a=1):\n  return a\n'
           'class K:\n'
           '  def __init__(self, a=1):\n    self.a = a\n'
           '  def %s(self, x=2):\n    return x\n' % self.mname)
    exec(src, mod.__dict__)  # pylint: disable=exec-used
    for o in (mod.f, mod.g, mod.K, getattr(mod.K, self.mname)):
      o.__module__ = mod.__name__
    sys.modules[mod.__name__] = mod
    self.mod = mod
    self.objs = {'f': mod.f, 'g': mod.g, 'K': mod.K, 'meth': getattr(mod.K, self.mname)}
    self.eq_callables = _COUNTER[0] % 3 == 0
    if self.eq_callables:
      # every third world: f and g are distinct callables that compare (and hash) equal, like two instances of a
      # frozen dataclass with __call__ - "a different object" is about identity, not equality
      self.objs['f'], self.objs['g'] = _EqCallable(), _EqCallable()

  def close(self):
    config = self.config
    config._set_config_is_locked(False)
    config._INTERACTIVE_MODE = False
    core.restore_registry(config, self._before, self._inv_before)
    config._RENAMED_SELECTORS.clear()
    sys.modules.pop(self.mod.__name__, None)

  def real_sel(self, sel):
    sel = self.prefix + sel[1:] if sel.startswith('m') else sel
    parts = sel.split('.')
    if parts[-1] == 'meth':
      parts[-1] = self.mname
    return '.'.join(parts)

  def spec_sel(self, sel):
    sel = 'm' + sel[len(self.prefix):] if sel.startswith(self.prefix) else sel
    parts = sel.split('.')
    if parts[-1] == self.mname:
      parts[-1] = 'meth'
    return '.'.join(parts)

  def register(self, q, api):
    gin = self.gin
    module, name = self.real_sel(q['sel']).rsplit('.', 1)
    # every other request spells the full name as a dotted `name` (module left out, or - for the invalid-module requests
    # - given and invalid): the verdict and the selector are the same
    # (not for a method: Gin asks that a method's module be left to its class)
    dotted_name = q['nameValid'] and q['obj'] != 'meth' and (self.step + _COUNTER[0]) % 2 == 0
    if dotted_name:
      name, module = module + '.' + name, None
    if not q['nameValid']:
      name = ['bad name!', '', 'a b', '1x'][self.step % 4]
    if not q['moduleValid']:
      module = ['bad module!', '', 'a..b'][self.step % 3]
    kw = dict(module=module)
    if q['bothLists']:
      kw.update(allowlist=['a'], denylist=['x'])
    elif q['listNotSequence']:
      kw.update(allowlist='a' if self.step % 2 else None, denylist=None if self.step % 2 else {'a'})
    elif q['unknownListName']:
      kw.update(**({'allowlist': ['nope']} if self.step % 2 else {'denylist': ['nope']}))
    obj = self.objs[q['obj']]
    if self.eq_callables and api == 'configurable' and not inspect.isclass(obj) and not inspect.isfunction(obj):
      api = 'external'          # gin.configurable is a decorator for one's own functions / classes
    try:
      if api == 'configurable':
        if inspect.isclass(obj):
          # gin.configurable mutates the class it decorates: use the non-mutating APIs for the shared K
          api = 'external'
        else:
          gin.configurable(name, **kw)(obj)
      if api == 'external':
        gin.external_configurable(obj, name=name, **kw)
      elif api == 'register':
        gin.register(name, **kw)(obj)
      return 'ok'
    except (ValueError, TypeError, RuntimeError) as e:
      return type(e).__name__

  def apply(self, o):
    self.step += 1
    gin, config = self.gin, self.config
    op = o['op']
    api = ['external', 'register', 'configurable'][self.step % 3]
    if op == 'Register':
      return self.register(o['req'], api)
    if op == 'InteractiveBlock':
      try:
        with config.interactive_mode():
          st = self.register(o['req'], api)
          if st != 'ok':
            raise KeyError('body failed')
      except KeyError:
        pass
      return st
    if op == 'SetInteractive':
      (gin.enter_interactive_mode if o['on'] else gin.exit_interactive_mode)()
      return 'ok'
    if op == 'SetLocked':
      config._set_config_is_locked(bool(o['on']))
      return 'ok'
    raise AssertionError(op)

  def project(self):
    config = self.config
    out = {}
    for sel, c in config._REGISTRY.items():
      if sel in self._before:
        continue
      who = [k for k, v in self.objs.items() if v is c.wrapped]
      out[self.spec_sel(sel)] = who[0] if who else '?'
    return dict(reg=out, interactive=bool(config._INTERACTIVE_MODE), locked=bool(gin_locked(self.gin)))


def gin_locked(gin):
  return gin.config_is_locked()


def replay(beh):
  w = RegWorld()
  try:
    for i, st in enumerate(beh):
      o = st['out']
      if i > 0:
        got = w.apply(o)
        if got != o['status']:
          return dict(step=i, action=o['op'], clause='out.status', expected=o['status'], got=got, args=o.get('req', {}).get('tag'))
      want = dict(reg={e['sel']: e['obj'] for e in st['reg']}, interactive=bool(st['interactive']), locked=bool(st['locked']))
      got = w.project()
      if want != got:
        return dict(step=i, action=o['op'], clause='state', expected=want, got=got, args=o.get('req', {}).get('tag'))
    return None
  finally:
    w.close()


# ---------------------------------------------------------------------------
# The shape universe for the transparency clauses

def _mk_shapes():
  """name -> (kind, factory returning a fresh object, sample kwargs for a parameter that can be bound, or None)."""

  def plain():
    def plain_fn(a, b=2):
      """doc of plain_fn"""
      return (a, b)
    return plain_fn

  def kwonly():
    def kw_fn(*args, b=2, **kw):
      """doc of kw_fn"""
      return (args, b, kw)
    return kw_fn

  def decorated():
    import functools

    def inner_fn(a, b=2):
      """doc of inner_fn"""
      return (a, b)

    @functools.wraps(inner_fn)
    def passthrough(*args, **kwargs):        # somebody else's decorator, applied before the function is registered
      return inner_fn(*args, **kwargs)
    return passthrough

  class CallableObj:
    """doc of callable object"""

    def __call__(self, a=1, b=2):
      return (a, b)

  def cls_init():
    class WithInit:
      """doc WithInit"""

      def __init__(self, a=1, b=2):
        self.a, self.b = a, b
    return WithInit

  def cls_new():
    class WithNew:
      """doc WithNew"""

      def __new__(cls, a=1, b=2):
        self = super().__new__(cls)
        self.a, self.b = a, b
        return self
    return WithNew

  def cls_both():
    class WithBoth:
      """doc WithBoth"""

      def __new__(cls, a=1, b=2):
        return super().__new__(cls)

      def __init__(self, a=1, b=2):
        self.a, self.b = a, b
    return WithBoth

  def cls_neither():
    class Base:

      def __init__(self, a=1, b=2):
        self.a, self.b = a, b

    class Neither(Base):
      """doc Neither"""
    return Neither

  def cls_meta():
    class Meta(type):
      pass

    class WithMeta(metaclass=Meta):
      """doc WithMeta"""

      def __init__(self, a=1, b=2):
        self.a, self.b = a, b
    return WithMeta

  def cls_slots():
    class WithSlots:
      """doc WithSlots"""
      __slots__ = ('a', 'b')

      def __init__(self, a=1, b=2):
        self.a, self.b = a, b
    return WithSlots

  def cls_new_over_mixin():
    class KwMixin:

      def __init__(self, *args, **kwargs):        # a cooperative base that swallows anything
        pass

    class NewOverMixin(KwMixin):
      """doc NewOverMixin"""

      def __new__(cls, a=1, b=2):           # the class's own construction signature is closed
        self = super().__new__(cls)
        self.a, self.b = a, b
        return self
    return NewOverMixin

  def cls_nt():
    return collections.namedtuple('NT', ['a', 'b'], defaults=(1, 2))

  def cls_abc():
    class Abstract(abc.ABC):

      def __init__(self, a=1, b=2):
        self.a, self.b = a, b

      @abc.abstractmethod
      def run(self):
        pass

    class Concrete(Abstract):
      """doc Concrete"""

      def run(self):
        return self.b
    return Concrete

  def cls_with_method():
    gin = core.import_gin()
    _COUNTER[0] += 1
    modname = 'gvtm%d' % _COUNTER[0]

    class WithMethod:
      """doc WithMethod"""

      def __init__(self, a=1, b=2):
        self.a, self.b = a, b

      def compute(self, x=3):
        return x
    WithMethod.__module__ = modname
    WithMethod.compute.__module__ = modname
    WithMethod.compute.__qualname__ = 'WithMethod.compute'
    gin.register(WithMethod.compute)        # the method is registered on its own first
    return WithMethod

  def cls_with_foreign_attr():
    gin = core.import_gin()
    _COUNTER[0] += 1
    modname = 'gvtf%d' % _COUNTER[0]

    class Other:

      @staticmethod
      def helper(x=1):
        return x
    Other.helper.__module__ = modname
    Other.helper.__qualname__ = 'Other.helper'
    gin.register(Other.helper)

    class Holder:
      """doc Holder"""
      helper = Other.helper               # a registered function that merely lives on the class

      def __init__(self, a=1, b=2):
        self.a, self.b = a, b
    Holder.__module__ = modname
    return Holder

  return {
      'class-with-registered-method': ('class-with-registered-method', cls_with_method),
      'class-with-foreign-registered-attribute': ('class', cls_with_foreign_attr),
      'plain-function': ('function', plain),
      'varargs-kwonly-function': ('function', kwonly),
      'decorated-function': ('function', decorated),
      'builtin': ('function', lambda: sorted),
      'callable-object': ('function', lambda: CallableObj()),
      'class-init': ('class', cls_init),
      'class-new': ('class', cls_new),
      'class-init-and-new': ('class', cls_both),
      'class-neither': ('class', cls_neither),
      'class-metaclass': ('class', cls_meta),
      'class-slots': ('class', cls_slots),
      'class-namedtuple': ('class', cls_nt),
      'class-new-over-kwargs-mixin': ('class', cls_new_over_mixin),
      'class-abstract-base': ('class', cls_abc),
  }


SHAPES = _mk_shapes()
TAKES_ANY_NAME = ('varargs-kwonly-function',)        # shapes whose construction signature has **kwargs


def unknown_parameter_case(shape, api):
  """Registers a fresh object of `shape` and tries to bind a parameter its signature does not have, through four
  binding paths.  Returns a list of (path, got) that were not rejected with ValueError (or changed the configuration)."""
  gin = core.import_gin()
  from gin import config
  kind, factory = SHAPES[shape]
  obj = factory()
  _COUNTER[0] += 1
  module, name = 'gvu%d' % _COUNTER[0], 'probe'
  before = dict(config._REGISTRY.items())
  inv_before = dict(config._INVERSE_REGISTRY)
  bad = []
  try:
    gin.clear_config()
    if api == 'external':
      gin.external_configurable(obj, name=name, module=module)
    else:
      gin.register(name, module=module)(obj)
    sel = module + '.' + name
    paths = {
        'string': lambda: gin.bind_parameter(sel + '.no_such_parameter', 1),
        'tuple': lambda: gin.bind_parameter(('sc', sel, 'no_such_parameter'), 1),
        'text': lambda: gin.parse_config(sel + '.no_such_parameter = 1'),
        'block': lambda: gin.parse_config('sc/' + sel + ':\n  no_such_parameter = 1\n'),
    }
    for how, fn in paths.items():
      try:
        fn()
        got = 'accepted'
      except ValueError:
        got = 'ValueError'
      except Exception as e:  # pylint: disable=broad-except
        got = type(e).__name__
      if got != 'ValueError' or config._CONFIG:
        bad.append((how, got))
        gin.clear_config()
  finally:
    gin.clear_config()
    core.restore_registry(config, before, inv_before)
  return bad
PICKLE_MODULE = 'gvreg_pickle_shapes'


def transparency_case(shape, api, scoped, predict):
  """Registers a fresh object of `shape` through `api` and checks the model's predicted observables.
  Returns a list of (clause, detail) that failed."""
  gin = core.import_gin()
  from gin import config
  kind, factory = SHAPES[shape]
  obj = factory()
  _COUNTER[0] += 1
  module = 'gvt%d' % _COUNTER[0]
  name = 'probe'
  before = dict(config._REGISTRY.items())
  inv_before = dict(config._INVERSE_REGISTRY)
  fails = []
  # make classes picklable by reference (module attribute), as user classes are
  picklable_original = False
  if inspect.isclass(obj):
    if shape.startswith('class-with-'):
      mod = sys.modules.setdefault(obj.__module__, types.ModuleType(obj.__module__))
      cname = obj.__name__
    else:
      mod = sys.modules.setdefault(PICKLE_MODULE, types.ModuleType(PICKLE_MODULE))
      cname = '%s_%d' % (obj.__name__, _COUNTER[0])
      obj.__qualname__ = cname
      obj.__name__ = cname
      obj.__module__ = PICKLE_MODULE
    obj.__qualname__ = cname
    setattr(mod, cname, obj)
    try:
      pickle.loads(pickle.dumps(obj(1, 2) if shape != 'class-abstract-base' else obj(1, 2)))
      picklable_original = True
    except Exception:  # pylint: disable=broad-except
      picklable_original = False
  meta = dict(name=getattr(obj, '__name__', None), doc=getattr(obj, '__doc__', None), module=getattr(obj, '__module__', None),
              qualname=getattr(obj, '__qualname__', None))
  try:
    sig = str(inspect.signature(obj)) if kind == 'function' else None
  except (TypeError, ValueError):
    sig = None
  orig_dict = dict(vars(obj)) if inspect.isclass(obj) else None
  try:
    gin.clear_config()
    if api == 'configurable':
      ret = gin.configurable(name, module=module)(obj)
    elif api == 'external':
      ret = gin.external_configurable(obj, name=name, module=module)
    else:
      ret = gin.register(name, module=module)(obj)
    sel = module + '.' + name
    bindable = 'b' if shape != 'builtin' else 'reverse'
    bound_val = 77 if shape != 'builtin' else True
    scope = 'sc' if scoped else ''
    gin.bind_parameter((scope, sel, bindable), bound_val)

    def call(fn):
      if shape == 'builtin':
        return fn([1, 3, 2])
      return fn(1)

    def injected(result):
      if shape == 'builtin':
        return result == [3, 2, 1]
      if kind != 'function':
        return getattr(result, 'b', None) == 77
      if shape == 'varargs-kwonly-function':
        return result[1] == 77
      return result[1] == 77

    # returnsOriginal
    if predict['returnsOriginal'] and ret is not obj:
      fails.append(('returnsOriginal', 'register() returned %r' % (ret,)))
    # originalUntouched: direct Python calls receive no injected values; the object itself is unchanged
    if predict['originalUntouched']:
      with gin.config_scope(scope or None):
        if injected(call(obj)):
          fails.append(('originalUntouched', 'a direct call of the original received the bound value'))
      if orig_dict is not None and dict(vars(obj)) != orig_dict:
        changed = [k for k in set(orig_dict) | set(vars(obj)) if orig_dict.get(k) is not vars(obj).get(k)]
        fails.append(('originalUntouched', 'class attributes changed: %s' % changed))
    # registryInjects: through a reference, a selector and the original object
    routes = []
    with gin.config_scope(scope or None):
      routes.append(('original object', gin.get_configurable(obj)))
    routes.append(('selector', gin.get_configurable((scope + '/' if scope else '') + sel)))
    ref = config.parse_value('@' + (scope + '/' if scope else '') + sel)
    import copy
    routes.append(('reference', copy.deepcopy(ref)))
    for how, fn in routes:
      try:
        if how == 'original object':
          with gin.config_scope(scope or None):
            r = call(fn)
        else:
          r = call(fn)
      except Exception as e:  # pylint: disable=broad-except
        fails.append(('registryInjects', '%s: call raised %s: %s' % (how, type(e).__name__, e)))
        continue
      if not injected(r):
        fails.append(('registryInjects', '%s: bound value not delivered (%r)' % (how, r)))
      if kind != 'function':
        if not isinstance(r, obj):
          fails.append(('instanceOfOriginal', '%s: %r is no instance of the original' % (how, type(r))))
        if predict['exactlyOriginalType'] and type(r) is not obj:
          fails.append(('exactlyOriginalType', '%s: type is %r' % (how, type(r))))
        if predict['picklesIfOriginal'] and picklable_original:
          try:
            back = pickle.loads(pickle.dumps(r))
            if type(back) is not obj:
              fails.append(('picklesIfOriginal', '%s: unpickled type %r' % (how, type(back))))
          except Exception as e:  # pylint: disable=broad-except
            fails.append(('picklesIfOriginal', '%s: %s: %s' % (how, type(e).__name__, e)))
    # metadata of the configurable version
    wrapper = routes[1][1]
    for attr, key in (('__name__', 'name'), ('__doc__', 'doc'), ('__module__', 'module')):
      if shape == 'builtin' and attr == '__module__':
        continue
      if shape == 'callable-object' and attr in ('__name__', '__module__'):
        continue
      if getattr(wrapper, attr, None) != meta[key] and not scoped:
        fails.append(('keepsMetadata', '%s: %r != %r' % (attr, getattr(wrapper, attr, None), meta[key])))
    if kind == 'function' and sig is not None and shape not in ('builtin', 'callable-object') and api == 'configurable':
      if str(inspect.signature(ret)) != sig:
        fails.append(('keepsMetadata', 'signature %s != %s' % (inspect.signature(ret), sig)))
    if shape == 'builtin' and sig is not None:
      # a builtin is wrapped by a shim; its introspectable signature still is the builtin's
      try:
        got_sig = str(inspect.signature(wrapper))
      except (TypeError, ValueError) as e:
        got_sig = 'RAISED %s' % type(e).__name__
      if got_sig != sig:
        fails.append(('keepsMetadata', 'signature of the configurable builtin %s != %s' % (got_sig, sig)))
    if kind != 'function' and not (inspect.isclass(wrapper) and issubclass(wrapper, obj)):
      fails.append(('wrapperIsSubclass', '%r' % (wrapper,)))
  finally:
    gin.clear_config()
    core.restore_registry(config, before, inv_before)
  return fails
