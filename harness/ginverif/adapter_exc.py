"""Observation of exceptions crossing configurables (C17): every builtin exception class plus synthetic user
classes, raised at nesting depth 1-3 in a body or while Gin evaluates a reference."""
import contextlib
import builtins
import sys
import traceback

from ginverif import core

_S = {}


def setup():
  gin = core.import_gin()
  if not _S:
    def make(name):
      if name == 'lv1':
        def fn(action=None):
          return action()
      elif name == 'lv2':
        def fn(action=None, *, size):           # a keyword-only parameter without a default
          return action()
      else:
        def fn(action, *rest, flag=False, **more):
          return action()
      fn.__name__ = name
      fn.__qualname__ = name
      fn.__module__ = 'gvexc'
      return gin.external_configurable(fn, name=name, module='gvexc')
    _S['lv'] = [make('lv1'), make('lv2'), make('lv3')]

    def raiser():
      raise _S['pending']
    raiser.__module__ = 'gvexc'
    _S['raiser'] = gin.external_configurable(raiser, name='raiser', module='gvexc')

    def consumer(value=None):
      return value
    consumer.__module__ = 'gvexc'
    _S['consumer'] = gin.external_configurable(consumer, name='consumer', module='gvexc')
  return gin


class WithInitArgs(Exception):

  def __init__(self, code, detail):
    super().__init__(code, detail)
    self.code = code
    self.detail = detail


class WithNewArgs(Exception):

  def __new__(cls, code):
    self = super().__new__(cls, code)
    self.code = code
    return self

  def __init__(self, code):
    super().__init__(code)


class WithKwOnlyNew(Exception):
  """Its __new__ wants a keyword that `args` does not carry: no proxy instance can be built."""

  def __new__(cls, *, code):
    self = super().__new__(cls)
    self.code = code
    return self

  def __init__(self, *, code):
    super().__init__('code %s' % code)


class WithValidatingNew(Exception):
  """Its __new__ looks its argument up: re-running it with `args` fails with a KeyError, not a TypeError."""
  KNOWN = {'net': 'network unreachable'}

  def __new__(cls, key):
    self = super().__new__(cls)
    self.reason = cls.KNOWN[key]
    return self

  def __init__(self, key):
    super().__init__(self.reason)


class WithSlots(Exception):
  __slots__ = ('slot_a', 'slot_b')

  def __init__(self, a, b):
    super().__init__(a)
    self.slot_a, self.slot_b = a, b


class WithStr(Exception):

  def __init__(self, x=5):
    super().__init__(x)
    self.x = x

  def __str__(self):
    return 'custom<%s>' % self.x


class SubOSError(OSError):
  pass


class BaseOnly(BaseException):
  pass


def _same_name_class():
  """Distinct class objects that share module and qualified name (as after importlib.reload)."""
  class Reloaded(Exception):
    pass
  Reloaded.__module__ = 'gvexc_reloaded'
  Reloaded.__qualname__ = 'Reloaded'
  return Reloaded


_DUPS = [_same_name_class(), _same_name_class(), _same_name_class()]


def universe():
  """(label, factory) for every exception class under test."""
  special = {
      'UnicodeDecodeError': lambda c: c('utf-8', b'\xff', 0, 1, 'bad byte'),
      'UnicodeEncodeError': lambda c: c('ascii', '\xe9', 0, 1, 'bad char'),
      'UnicodeTranslateError': lambda c: c('\xe9', 0, 1, 'bad'),
      'StopIteration': lambda c: c(7),
      'StopAsyncIteration': lambda c: c(7),
      'SystemExit': lambda c: c(3),
      'KeyError': lambda c: c('missing-key'),
      'ImportError': lambda c: c('no module', name='modname', path='/p'),
      'ModuleNotFoundError': lambda c: c('no module', name='modname', path='/p'),
      'SyntaxError': lambda c: c('bad syntax', ('file.py', 3, 7, 'text\n')),
      'IndentationError': lambda c: c('bad indent', ('file.py', 3, 7, 'text\n')),
      'TabError': lambda c: c('bad tab', ('file.py', 3, 7, 'text\n')),
      'AttributeError': lambda c: c('no attr', name='attr', obj=3),
      'NameError': lambda c: c('no name', name='nm'),
      'ExceptionGroup': lambda c: c('group', [ValueError(1), KeyError('k')]),
      'BaseExceptionGroup': lambda c: c('group', [KeyboardInterrupt()]),
  }
  out = []
  for name in sorted(dir(builtins)):
    cls = getattr(builtins, name)
    if not (isinstance(cls, type) and issubclass(cls, BaseException)):
      continue
    if name in ('EnvironmentError', 'IOError', 'WindowsError'):
      continue          # aliases of OSError
    if issubclass(cls, Warning):
      fac = lambda c=cls: c('a warning', 2)
    elif name in special:
      fac = lambda c=cls, f=special[name]: f(c)
    elif issubclass(cls, OSError):
      fac = lambda c=cls: c(2, 'No such file', 'the-file')
    else:
      fac = lambda c=cls: c('message', 42)
    out.append((name, fac))
  out += [('user:WithInitArgs', lambda: WithInitArgs(4, 'detail')), ('user:WithNewArgs', lambda: WithNewArgs(9)), ('user:WithKwOnlyNew', lambda: WithKwOnlyNew(code=3)), ('user:WithValidatingNew', lambda: WithValidatingNew('net')),
          ('user:TypeErrorSub', lambda: type('ShapeError', (TypeError,), {})('bad shape', 3)),
          ('user:WithSlots', lambda: WithSlots('a', 'b')), ('user:WithStr', lambda: WithStr(6)),
          ('user:SubOSError', lambda: SubOSError(13, 'denied', 'f')), ('user:BaseOnly', lambda: BaseOnly('b')),
          ('user:Reloaded#1', lambda: _DUPS[0]('first')), ('user:Reloaded#2', lambda: _DUPS[1]('second')),
          ('user:Reloaded#3', lambda: _DUPS[2]('third'))]
  return out


def storage_of(exc, name):
  if name == 'args':
    return 'args'
  if name in getattr(exc, '__dict__', {}):
    return 'dict'
  for k in type(exc).__mro__:
    if name in k.__dict__:
      d = k.__dict__[name]
      if type(d).__name__ == 'member_descriptor' and k.__module__ != 'builtins':
        return 'slots'
      if type(d).__name__ in ('member_descriptor', 'getset_descriptor'):
        return 'cmember'
      return 'class-attr'
  return 'other'


def ctor_kind(exc):
  cls = type(exc)
  try:
    cls.__new__(cls, *exc.args)
  except Exception:  # pylint: disable=broad-except
    return 'unproxiable'       # no second instance can be built from the original's args
  try:
    cls.__new__(cls)
    return 'none'
  except TypeError:
    return 'new-required'
  except Exception:  # pylint: disable=broad-except
    return 'none'


def observe(label, factory, depth, site, scopes):
  """Raises factory() inside a nest of `depth` configurables (scopes[i] around level i) and returns the list of
  (signature, detail) failures of C17 observed on what the caller catches."""
  gin = setup()
  gin.clear_config()
  original = factory()
  _S['pending'] = original
  lv = _S['lv']

  def innermost():
    if site == 'body':
      raise original
    gin.bind_parameter('gvexc.consumer.value', gin.config.parse_value('@gvexc.raiser()'))
    return _S['consumer']()

  def level(i):
    def run():
      # '' = no block at this level (config_scope(None) would *clear* the active scope)
      with (gin.config_scope(scopes[i]) if scopes[i] else contextlib.nullcontext()):
        nxt = level(i + 1) if i + 1 < depth else innermost
        return [lambda: lv[0](action=nxt), lambda: lv[1](action=nxt, size=3), lambda: lv[2](nxt, 'extra', flag=True, other=1)][i]()
    return run

  frames = [('lv%d' % (i + 1), '/'.join(s for s in scopes[:i + 1] if s)) for i in range(depth)]
  inner_scope = '/'.join(s for s in scopes[:depth] if s)
  if site == 'reference':
    expected_frames = [('raiser', inner_scope)] + list(reversed(frames))
  else:
    expected_frames = list(reversed(frames))
  fails = []
  caught = None
  trace_out = observe.last_trace = []
  try:
    level(0)()
  except BaseException as e:  # pylint: disable=broad-except
    caught = e
  finally:
    gin.clear_config()
  if caught is None:
    return [(dict(clause='raised'), 'nothing was raised')]
  is_exc = isinstance(original, Exception)
  # -- the same observation as a GinExc trace (validated by TLC against the spec with today's deviations) --
  kinds = {}
  for name in dir(original):
    if name.startswith('_'):
      continue
    try:
      want = getattr(original, name)
    except Exception:  # pylint: disable=broad-except
      continue
    if callable(want):
      continue
    k = storage_of(original, name)
    if k not in ('args', 'dict', 'slots', 'cmember'):
      continue
    try:
      got = getattr(caught, name)
      same = got == want or got is want
    except Exception:  # pylint: disable=broad-except
      same = False
    kinds[k] = kinds.get(k, True) and same
  same_class = type(caught).__name__ == type(original).__name__ and isinstance(caught, type(original))
  desc = dict(ctor=ctor_kind(original), attrs=sorted(kinds), isExc=is_exc)
  desc['id'] = '%s|%s|%s' % (desc['ctor'], ','.join(desc['attrs']), desc['isExc'])
  for conf, scope in reversed(expected_frames):
    trace_out.append(['Enter', conf, scope])
  trace_out.append(['Raise', desc['id'], site])
  trace_out.extend([['Propagate']] * len(expected_frames))
  trace_out.append(['Catch', bool(same_class), sorted(k for k, ok in kinds.items() if ok) if same_class else [],
                    str(caught).count("In call to configurable")])
  observe.last_desc = desc
  if not is_exc:
    if caught is not original:
      fails.append((dict(clause='pass-through'), 'a non-Exception was replaced by %r' % (caught,)))
    return fails
  ctor = ctor_kind(original)
  # same class, catchable by the same except clauses
  if type(caught).__name__ != type(original).__name__ or not isinstance(caught, type(original)):
    fails.append((dict(clause='class', ctor=ctor), '%s arrived as %s: %s' % (type(original).__name__, type(caught).__name__, str(caught)[:120])))
    return fails
  for k in type(original).__mro__:
    if not isinstance(caught, k):
      fails.append((dict(clause='class', ctor=ctor), 'not an instance of %s' % k.__name__))
  # public attributes
  for name in dir(original):
    if name.startswith('_'):
      continue
    try:
      want = getattr(original, name)
    except Exception:  # pylint: disable=broad-except
      continue
    if callable(want):
      continue
    try:
      got = getattr(caught, name)
      same = got == want or (got is want)
    except Exception as e:  # pylint: disable=broad-except
      got, same = 'RAISED %s' % type(e).__name__, False
    if not same:
      fails.append((dict(clause='attr', storage=storage_of(original, name)), '%s.%s: %r != %r' % (label, name, got, want)))
  # traceback reaches the raising frame
  tb_funcs = [f.name for f in traceback.extract_tb(caught.__traceback__)]
  want_fn = 'innermost' if site == 'body' else 'raiser'
  if want_fn not in tb_funcs:
    fails.append((dict(clause='traceback'), 'raising frame %s not in %s' % (want_fn, tb_funcs[-6:])))
  # message: original text first, then one suffix per frame, innermost first
  text = str(caught)
  if not text.startswith(str(original)):
    fails.append((dict(clause='message-prefix'), '%r does not start with %r' % (text[:80], str(original)[:80])))
  pos = 0
  if ctor == 'unproxiable':
    if 'In call to configurable' in text:
      fails.append((dict(clause='message-suffix'), 'an exception that cannot be proxied arrived with an extended message: %r' % text[-200:]))
    if caught is not original:
      fails.append((dict(clause='class', ctor=ctor), 'an exception that cannot be proxied must arrive as the original object'))
    return fails
  for conf, scope in expected_frames:
    needle = "In call to configurable '%s'" % conf
    i = text.find(needle, pos)
    if i < 0:
      fails.append((dict(clause='message-suffix'), 'no suffix for %s (in order) in %r' % (conf, text[-300:])))
      break
    line = text[i:text.find('\n', i) if text.find('\n', i) > 0 else len(text)]
    if scope and ("in scope '%s'" % scope) not in line:
      fails.append((dict(clause='message-scope'), 'suffix %r does not name scope %r' % (line, scope)))
    pos = i + 1
  return fails
