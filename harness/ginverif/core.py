"""Common plumbing for the per-property checks: gin import from $GIN_REPO, seeds,
violations / known findings / replay files, evidence files, exit codes."""
import hashlib
import importlib
import json
import os
import sys
import time

VERIF = os.path.dirname(os.path.dirname(os.path.dirname(os.path.abspath(__file__))))
GIN_REPO = os.environ.get('GIN_REPO', '/repo')
EVIDENCE_DIR = os.path.join(VERIF, 'evidence')
REPLAY_DIR = os.path.join(VERIF, 'replays')
KNOWN_FINDINGS = os.path.join(VERIF, 'known_findings.json')


def import_gin():
  """Imports gin from the working tree under test (never an installed copy)."""
  if GIN_REPO not in sys.path:
    sys.path.insert(0, GIN_REPO)
  for m in list(sys.modules):
    if m == 'gin' or m.startswith('gin.'):
      f = getattr(sys.modules[m], '__file__', '') or ''
      if not f.startswith(GIN_REPO):
        del sys.modules[m]
  gin = importlib.import_module('gin')
  assert gin.__file__.startswith(GIN_REPO), gin.__file__
  return gin


def seed():
  try:
    return int(os.environ.get('VERIF_SEED', '0'))
  except ValueError:
    return 0


def load_known():
  if not os.path.exists(KNOWN_FINDINGS):
    return []
  with open(KNOWN_FINDINGS) as fh:
    return json.load(fh).get('findings', [])


def _matches(match, sig):
  """A finding matches a violation signature if every key of `match` is equal in `sig`."""
  return all(sig.get(k) == v for k, v in match.items())


class Report:
  """Collects what one run of one check covered and found."""

  def __init__(self, prop, tier, level='model_checking'):
    self.prop = prop
    self.tier = tier
    self.level = level
    self.t0 = time.time()
    self.seed = seed()
    self.violations = []       # (signature dict, replay path)
    self.known_hits = {}       # finding id -> count
    self.states = 0
    self.transitions = 0
    self.traces_validated = 0
    self.behaviours_replayed = 0
    self.evaluations = 0
    self.nontrivial = set()
    self.samples = []
    self.rule = ''
    self.assumptions = []
    self.extra = {}
    self.exhaustive = False
    self.tlc_runs = []
    self._known = [f for f in load_known() if f.get('property') == prop and f.get('status') == 'known']

  # -- bookkeeping ---------------------------------------------------------
  def add_tlc(self, name, res, exhaustive=None):
    self.states += res.distinct
    self.transitions += res.generated
    d = res.summary()
    d['config'] = name
    if exhaustive is not None:
      d['exhaustive'] = exhaustive
    self.tlc_runs.append(d)

  def nontrivial_case(self, key):
    self.nontrivial.add(key if isinstance(key, (str, int, tuple)) else json.dumps(key, sort_keys=True, default=str))

  def sample(self, s, cap=4):
    if len(self.samples) < cap:
      self.samples.append(s)

  # -- violations ----------------------------------------------------------
  def violation(self, sig, replay):
    """Records a violation with structural signature `sig` (a dict); `replay` is the
    JSON-able witness.  Known findings whose match is contained in sig are suppressed
    (and counted); everything else becomes a VIOLATION line."""
    for f in self._known:
      if _matches(f['match'], sig):
        self.known_hits[f['id']] = self.known_hits.get(f['id'], 0) + 1
        return False
    if len(self.violations) >= 25:
      self.violations.append((sig, None))
      return True
    os.makedirs(REPLAY_DIR, exist_ok=True)
    blob = json.dumps(dict(property=self.prop, signature=sig, replay=replay), sort_keys=True, default=str)
    h = hashlib.sha1(blob.encode()).hexdigest()[:10]
    path = os.path.join(REPLAY_DIR, '%s_%s.json' % (self.prop, h))
    with open(path, 'w') as fh:
      fh.write(blob)
    self.violations.append((sig, path))
    print('VIOLATION property=%s replay=%s' % (self.prop, path))
    print('  signature: %s' % json.dumps(sig, sort_keys=True, default=str)[:600])
    sys.stdout.flush()
    return True

  def known_finding_still_fails(self, fid, what):
    print('KNOWN-FINDING: property=%s %s' % (self.prop, what))
    self.known_hits.setdefault(fid, 0)

  # -- finish --------------------------------------------------------------
  def finish(self):
    wall = time.time() - self.t0
    cov = dict(
        states=max(self.states, 0),
        transitions=max(self.transitions, 0),
        # both conformance directions: TLC-generated behaviours / inputs replayed into the implementation, and
        # traces recorded from the implementation validated by TLC
        traces_validated_against_impl=self.traces_validated + self.behaviours_replayed,
        spec_behaviours_replayed_into_impl=self.behaviours_replayed,
        impl_traces_validated_by_tlc=self.traces_validated,
        evaluations=self.evaluations,
        distinct_nontrivial=len(self.nontrivial),
        rule=self.rule,
        samples=self.samples or ['(none recorded)'],
        exhaustive=self.exhaustive,
        tlc_runs=self.tlc_runs,
        known_findings_hit=self.known_hits,
    )
    cov.update(self.extra)
    ev = dict(property_id=self.prop, tier=self.tier, seed=self.seed, level=self.level,
              coverage=cov, assumptions=self.assumptions, wall_s=round(wall, 2),
              violations=len(self.violations))
    os.makedirs(EVIDENCE_DIR, exist_ok=True)
    with open(os.path.join(EVIDENCE_DIR, '%s.json' % self.prop), 'w') as fh:
      json.dump(ev, fh, indent=1, sort_keys=True, default=str)
    print('%s %s: states=%d transitions=%d behaviours_replayed=%d traces_validated=%d '
          'evaluations=%d nontrivial=%d violations=%d known=%s wall=%.1fs' %
          (self.prop, self.tier, self.states, self.transitions, self.behaviours_replayed,
           self.traces_validated, self.evaluations, len(self.nontrivial), len(self.violations),
           dict(self.known_hits), wall))
    return 1 if self.violations else 0


def jdump(x):
  return json.dumps(x, sort_keys=True, default=str)


def fz(x):
  """JSON value -> hashable canonical form where lists that represent *sets* were
  already sorted by the caller."""
  if isinstance(x, list):
    return tuple(fz(i) for i in x)
  if isinstance(x, dict):
    return tuple(sorted((k, fz(v)) for k, v in x.items()))
  return x


def restore_registry(config, before, inv_before):
  """Puts gin's registry back to what it was (`before`: dict selector -> Configurable, `inv_before`: inverse registry).
  Isolation between cases must not depend on the SelectorMap under test: if removing the entries one by one fails, both
  maps are rebuilt from scratch."""
  try:
    for sel in [k for k, _ in list(config._REGISTRY.items()) if k not in before]:
      config._REGISTRY.pop(sel)
    ok = set(k for k, _ in config._REGISTRY.items()) == set(before)
  except Exception:  # pylint: disable=broad-except
    ok = False
  if not ok:
    from gin import selector_map
    reg = selector_map.SelectorMap()
    for k, v in before.items():
      reg[k] = v
    config._REGISTRY = reg
  for k in [k for k in list(config._INVERSE_REGISTRY) if k not in inv_before]:
    try:
      del config._INVERSE_REGISTRY[k]
    except Exception:  # pylint: disable=broad-except
      pass
