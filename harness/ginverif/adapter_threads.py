"""Real threads under the deterministic scheduler, driven by the thread programs of GinThreads.tla."""
import threading

from ginverif import core
from ginverif import sched as S
from ginverif import textobs

SINGLE_OF = {'f': 's1', 'g': '', 'h': 's2'}
_P = {}


def setup():
  gin = core.import_gin()
  from gin import config
  if not _P:
    _P['log'] = []

    def mk(name):
      def fn(p=None):
        sc = _P.get('sched')
        me = sc.current() if sc else None
        if me is not None:
          sc.events.append([me, 'WBody'])
        _P['log'].append((me, name, list(gin.current_scope()), p))
        return p
      fn.__name__ = name
      fn.__module__ = 'gvthr'
      return gin.external_configurable(fn, name=name, module='gvthr')
    for n in ('f', 'g', 'h'):
      _P[n] = mk(n)

    class Obj:
      """The singleton's object; deliberately falsy (an empty container is a legal singleton)."""

      def __bool__(self):
        return False

      def __init__(self):
        sc = _P.get('sched')
        me = sc.current() if sc else None
        _P['ctor_calls'].append((me, list(gin.current_scope())))
        if me is not None:
          sc.events.append([me, 'SConstruct'])
          sc.ctx[me]['ctor_depth'] += 1
          sc.yield_point(me, 'ctor')
          sc.ctx[me]['ctor_depth'] -= 1
    Obj.__module__ = 'gvthr'
    _P['ctor'] = gin.external_configurable(Obj, name='Obj', module='gvthr')
  return gin, config


def configure(gin):
  gin.clear_config()
  gin.parse_config("""
gvthr.f.p = @s1/gin.singleton()
gvthr.h.p = @s2/gin.singleton()
s1/gin.singleton.constructor = @gvthr.Obj
s2/gin.singleton.constructor = @gvthr.Obj
""")


def run_ops(gin, ops, name=None, sc=None, observed=None):
  cms = []
  for op in ops:
    if sc is not None:
      c = sc.ctx[name]
      c.update(op=op['op'], sel='gvthr.' + op.get('conf', ''), merged=False, locked_once=False, holding=False, iterated=False)
      sc.events.append([name, 'Start'])
    if op['op'] == 'call':
      _P[op['conf']]()
    elif op['op'] == 'read':
      text = gin.operative_config_str()
      textobs.statements(text)          # every read parses
    elif op['op'] == 'enter':
      cm = gin.config_scope(op['scope'])
      cm.__enter__()
      cms.append(cm)
    elif op['op'] == 'exit':
      if cms:
        cms.pop().__exit__(None, None, None)
    if observed is not None:
      observed.append([list(gin.current_scope()), gin.current_scope_str()])
    if sc is not None:
      sc.ctx[name]['op'] = None
  while cms:
    cms.pop().__exit__(None, None, None)


def expected_scopes(ops):
  st, out = [[]], []
  for op in ops:
    if op['op'] == 'enter':
      st.append(st[-1] + [op['scope']])
    elif op['op'] == 'exit' and len(st) > 1:
      st.pop()
    out.append([list(st[-1]), '/'.join(st[-1])])
  return out


def sequential(programs):
  """The operative config text of running the same programs one after another."""
  gin, config = setup()
  _P['sched'] = None
  _P['ctor_calls'] = []
  configure(gin)
  for name in sorted(programs):
    run_ops(gin, programs[name])
  text = gin.operative_config_str()
  gin.clear_config()
  return text


def scheduled(programs, seed, preempt=0.25):
  """One execution of the programs in real threads under a seeded schedule.
  Returns dict(events, failures=[(signature, detail)], switches)."""
  gin, config = setup()
  sc = S.Scheduler(config, seed, preempt)
  _P['sched'] = sc
  _P['ctor_calls'] = []
  _P['log'][:] = []
  configure(gin)
  undo = S.install(config, sc)
  observed = {n: [] for n in programs}
  fails = []
  try:
    fns = {n: (lambda s, name, ops=ops: run_ops(gin, ops, name, s, observed[name])) for n, ops in programs.items()}
    try:
      sc.run(fns)
    except S.Deadlock as e:
      fails.append((dict(clause='deadlock'), str(e)))
    for n, e in sc.errors.items():
      fails.append((dict(clause='no-failure', error=type(e).__name__), '%s failed: %s: %s' % (n, type(e).__name__, str(e)[:200])))
    # singletons: constructed at most once per key, and everybody received the same object
    per_key = {}
    for me, scope in _P['ctor_calls']:
      per_key.setdefault('/'.join(scope), []).append(me)
    for k, who in per_key.items():
      if len(who) > 1:
        fails.append((dict(clause='singleton-once'), 'constructor for %r ran %d times (%s)' % (k, len(who), who)))
    got = {}
    for me, conf, scope, p in _P['log']:
      if SINGLE_OF.get(conf):
        got.setdefault(SINGLE_OF[conf], set()).add(id(p))
    for k, ids in got.items():
      if len(ids) > 1:
        fails.append((dict(clause='singleton-same-object'), '%d different objects handed out for %r' % (len(ids), k)))
    # scopes are private to a thread
    for n, ops in programs.items():
      if not sc.errors.get(n) and observed[n] != expected_scopes(ops):
        fails.append((dict(clause='scope-private'), '%s observed %s, expected %s' % (n, observed[n], expected_scopes(ops))))
    for me, conf, scope, p in _P['log']:
      pass
    final = gin.operative_config_str() if not sc.errors else None
  finally:
    _P['sched'] = None
    undo()
    gin.clear_config()
  return dict(events=sc.events, failures=fails, switches=sc.switches, final=final)
