"""Adapter between GinParse.tla and gin's file-level parsing entry points."""
import contextlib
import io
import os
import re
import shutil
import sys
import tempfile
import tokenize

from ginverif import core

# text the parser rejects / text the tokenizer itself rejects (raised while the *next* statement is being fetched)
SYNTAX_TEXTS = ['f.p = ]', "'''unterminated", 'f.p =', "'oops.x = 4", 'f..p = 1', '0bad.x = 4', 'f.p = [1', 'f.p = "abc', 'f.p = 1 2',
                'f.p = 1_', 'f.p == 1', "f.p = b'\u00e9'", 'f.p = {1:}', 'f.p = 0777', 'f/ p.q = 1', 'f.p = 1 +', 'g: 1', 'f.p = $']
FIRST_TOKEN_FAULTS = ['0bad.x = 4', "'oops.x = 4", "'''unterminated", '$f.p = 1', '"""', '1_.x = 2']
_STATE = {}


def setup():
  import logging
  logging.disable(logging.CRITICAL)
  gin = core.import_gin()
  from gin import config
  if not _STATE:
    def f(p=None, q=None):
      return p, q
    f.__module__ = 'gvparse'

    def g(p=None):
      return p
    g.__module__ = 'gvparse'
    _STATE['f'] = gin.external_configurable(f, name='f', module='gvparse', denylist=['q'])
    _STATE['g'] = gin.external_configurable(g, name='g', module='gvparse')

    def h1(p=None):
      return p

    def h2(p=None):
      return p
    # two configurables that the short name h matches
    _STATE['h1'] = gin.external_configurable(h1, name='h', module='gvparse')
    _STATE['h2'] = gin.external_configurable(h2, name='h', module='gvparse2')
    d = tempfile.mkdtemp(prefix='ginverif_mod_')
    with open(os.path.join(d, 'gvmod_ok.py'), 'w') as fh:
      fh.write('X = 1\n')
    sys.path.insert(0, d)
    _STATE['moddir'] = d
  return gin, config


def teardown():
  # the configurables of this adapter must not stay behind for other adapters of the same process
  try:
    from gin import config
    for sel in ('gvparse.f', 'gvparse.g', 'gvparse.h', 'gvparse2.h'):
      if sel in config._REGISTRY:
        c = config._REGISTRY.pop(sel)
        config._INVERSE_REGISTRY.pop(c.wrapped, None)
  except Exception:  # pylint: disable=broad-except
    pass
  d = _STATE.get('moddir')
  if d:
    shutil.rmtree(d, ignore_errors=True)
    if d in sys.path:
      sys.path.remove(d)
  _STATE.clear()


def value_text(v):
  if v[0] == 'lit':
    return repr(v[1])
  if v[0] == 'ref':
    return '@%s%s()' % (v[2] + '/' if len(v) > 2 else '', v[1])
  raise AssertionError(v)


DECOR = ['# a comment line', '', '  # an indented comment', '', '# another']


def render_with_map(doc, salt, pkgname=None, decorate=False):
  """Text of an abstract document: one statement per line (blocks: header plus one line per member).  With `decorate`,
  comment and blank lines are put between statements and between the members of a block (the specification counts lines
  without them): the second result maps the specification's line numbers to the real ones."""
  lines, linemap = [], {}
  absline = [0]

  def emit(text, counted=True):
    lines.append(text)
    if counted:
      absline[0] += 1
      linemap[absline[0]] = len(lines)

  def deco(k):
    if decorate and (salt + k) % 3 == 0:
      for j in range(1 + (salt + k) % 2):
        emit(DECOR[(salt + k + j) % len(DECOR)], counted=False)

  for i, s in enumerate(doc):
    t = s['t']
    if i > 0:
      deco(i)
    if t == 'bind':
      emit('%s%s.%s = %s' % (s['scope'] + '/' if s['scope'] else '', s['sel'], s['param'], value_text(s['val'])))
    elif t == 'macro':
      emit('%s = %s' % (s['name'], value_text(s['val'])))
    elif t == 'block':
      emit('%s%s:' % (s['scope'] + '/' if s['scope'] else '', s['sel']))
      for j, (p, v) in enumerate(s['members']):
        if decorate and (salt + i + j) % 2 == 0:
          emit(['  # about the next member', ''][(salt + j) % 2], counted=False)
        emit('  %s = %s' % (p, value_text(v)))
    elif t == 'import':
      emit('import %s' % s['module'])
    elif t == 'include':
      emit("include '%s.gin'" % (pkgname + '/p' if (s['file'] == 'p' and pkgname) else s['file']))
    elif t == 'syntax':
      if i > 0 and doc[i - 1]['t'] in ('block', 'bind', 'macro') and salt % 2 == 0:
        # the fault is the very first token of the line that follows a complete statement
        emit(FIRST_TOKEN_FAULTS[(salt // 2 + i) % len(FIRST_TOKEN_FAULTS)])
      else:
        emit(SYNTAX_TEXTS[(salt + i) % len(SYNTAX_TEXTS)])
    else:
      raise AssertionError(t)
  return '\n'.join(lines) + '\n', linemap


def render(doc, salt, pkgname=None):
  return render_with_map(doc, salt, pkgname)[0]


class MemReader:
  """A second file reader, serving files from memory."""

  def __init__(self):
    self.files = {}

  def open(self, path):
    f = io.StringIO(self.files[path])
    f.name = path
    return contextlib.closing(f)

  def readable(self, path):
    return path in self.files


LINEMAPS = {}     # file name -> {line as the specification counts -> line in the text written for the current case}


@contextlib.contextmanager
def materialised(case, salt):
  """The file store of a case on disk / in memory, the readers and the search locations registered in the case's
  registration order.  Yields (gin, config, skip_unknown argument)."""
  gin, config = setup()
  work = tempfile.mkdtemp(prefix='ginverif_parse_')
  cwd = os.getcwd()
  saved_readers = list(config._FILE_READERS)
  saved_prefixes = list(config._LOCATION_PREFIXES)
  mem = MemReader()
  LINEMAPS.clear()
  _STATE['n'] = _STATE.get('n', 0) + 1
  pkgname = 'gvparsepkg%d' % _STATE['n']          # package-relative names resolve through the Python path
  pkgroot = tempfile.mkdtemp(prefix='ginverif_pkg_')
  os.mkdir(os.path.join(pkgroot, pkgname))
  open(os.path.join(pkgroot, pkgname, '__init__.py'), 'w').close()
  sys.path.insert(0, pkgroot)
  import importlib
  importlib.invalidate_caches()
  try:
    os.chdir(work)
    locpath = {'': ''}
    for loc in ('L1', 'L2'):
      p = os.path.join(work, loc)
      os.mkdir(p)
      locpath[loc] = p
    for loc in case.get('reglog', ['L1', 'L2']):
      gin.add_config_file_search_path(locpath[loc])
    config.register_file_reader(mem.open, mem.readable)
    expected_first = {n: (r[1] if r[0] == 'found' else None) for n, r in case['resolved'].items()}
    for loc, reader, name in case['present']:
      text, lm = render_with_map(case['files'][name], salt, pkgname, decorate=bool(salt % 2))
      LINEMAPS[name] = lm
      if expected_first.get(name) and [loc, reader, name] != list(expected_first[name]):
        text = "gvparse.f.p = 'WRONG-PLACEMENT-%s-%s'\n" % (loc, reader)      # reading this one would be a resolution error
      path = os.path.join(locpath[loc], name + '.gin')
      if name == 'p' and reader != 'pkg':
        path = os.path.join(locpath[loc], pkgname, 'p.gin')       # the same relative name under a search location
      if reader == 'pkg':
        with open(os.path.join(pkgroot, pkgname, name + '.gin'), 'w') as fh:
          fh.write(text)
      elif reader == 'r1':
        if os.path.dirname(path):
          os.makedirs(os.path.dirname(path), exist_ok=True)
        with open(path, 'w') as fh:
          fh.write(text)
      else:
        mem.files[path] = text
    if salt % 3 == 0:
      # a *directory* that carries the file's name in a location searched before the one that holds the file: not a file
      order = [''] + list(case.get('reglog', ['L1', 'L2']))
      for name, first in expected_first.items():
        if not first or name == 'p':
          continue
        for loc in order[:order.index(first[0])] if first[0] in order else []:
          if not any(pl[0] == loc and pl[2] == name for pl in case['present']):
            os.makedirs(os.path.join(locpath[loc], name + '.gin'), exist_ok=True)
    gin.clear_config()
    sk = case['skip']
    skip = {'false': False, 'true': True}.get(sk['mode'])
    if skip is None:
      skip = [list(sk['names']), tuple(sk['names']), set(sk['names'])][salt % 3]
    yield gin, config, skip
  finally:
    os.chdir(cwd)
    config._FILE_READERS[:] = saved_readers
    config._LOCATION_PREFIXES[:] = saved_prefixes
    try:
      config._set_config_is_locked(False)
      gin.clear_config()
    except Exception:  # pylint: disable=broad-except
      pass
    shutil.rmtree(work, ignore_errors=True)
    if pkgroot in sys.path:
      sys.path.remove(pkgroot)
    sys.modules.pop(pkgname, None)
    shutil.rmtree(pkgroot, ignore_errors=True)


def _recorded_imports(gin):
  """The imports the configuration remembers, as config_str() writes them (which must always work)."""
  try:
    text = gin.config_str()
  except Exception as e:  # pylint: disable=broad-except
    return 'config_str RAISED %s: %s' % (type(e).__name__, str(e)[:120])
  return sorted(set(m.group(1) for m in re.finditer(r'^import (\S+)', text, re.M)))


def run_case(case, salt):
  """Materialises the file store, parses root.gin with the real gin and returns the observation."""
  obs = {}
  with materialised(case, salt) as (gin, config, skip):
    try:
      res = gin.parse_config_file('root.gin', skip_unknown=skip)
      obs['status'] = 'ok'
      obs['tree'] = tree_of(res)
    except BaseException as e:  # pylint: disable=broad-except
      obs['status'] = status_of(e)
      obs['msg'] = str(e)
      obs['chain'] = [[os.path.basename(a)[:-4], int(b)] for a, b in re.findall(r'In file "([^"]*)", line (\d+)', str(e))]
      obs['tree'] = []
    obs['cfg'] = project_cfg(config)
    obs['prov'] = project_prov(config)
    obs['recorded'] = _recorded_imports(gin)
    obs['restored'] = dict(contexts=len(config._PARSE_CONTEXTS), scope=list(gin.current_scope()), locked=gin.config_is_locked())
    # later parsing behaves as in a fresh process with that prefix applied
    try:
      gin.parse_config("gvparse.g.p = 'after'")
      obs['after'] = config._CONFIG.get(('', 'gvparse.g'), {}).get('p')
    except Exception as e:  # pylint: disable=broad-except
      obs['after'] = 'RAISED %s: %s' % (type(e).__name__, e)
    return obs


def run_entry(case, index, salt):
  """parse_config_files_and_bindings with the index-th argument form of the case.  Returns None or (clause, expected, got)."""
  ent = case['entries'][index]
  form, want = ent['form'], ent['result']
  with materialised(case, salt) as (gin, config, skip):
    files = [n + '.gin' for n in form['files']]          # ('nofile.gin' exists nowhere)
    if not files and salt % 2:
      files = None
    b = form['bindings']
    bindings = {'none': None, 'emptylist': [], 'emptystr': '', 'one': [render([case['entry_binding']], salt).strip()]}[b]
    if b == 'one' and salt % 3 == 0:
      bindings = bindings[0]          # a single string is accepted as well
    kwargs = dict(skip_unknown=skip)
    if not form['finalize'] or salt % 2:
      kwargs['finalize_config'] = bool(form['finalize'])      # True is also the default
    try:
      gin.parse_config_files_and_bindings(files, bindings, **kwargs)
      status = 'ok'
    except BaseException as e:  # pylint: disable=broad-except
      status = status_of(e)
    got = dict(status=status, cfg=project_cfg(config), locked=bool(gin.config_is_locked()))
    exp = dict(status=want['status'], cfg=sorted([x['scope'], x['sel'], x['param'], list(x['val'])] for x in want['cfg']),
               locked=bool(want['locked']))
    if got != exp:
      return ('entry-point', dict(form=form, **exp), got)
    return None


def status_of(e):
  if isinstance(e, (SyntaxError, tokenize.TokenError)):
    return 'SyntaxError'
  if isinstance(e, ImportError):
    return 'ImportError'
  if isinstance(e, OSError):
    return 'IOError'
  return type(e).__name__


def tree_of(res):
  return [dict(file=os.path.basename(res.filename)[:-4], imports=list(res.imports), includes=[x for r in res.includes for x in tree_of(r)])]


def _sel(s):
  return s[len('gvparse.'):] if s.startswith('gvparse.') else s


def _val(config, v):
  if isinstance(v, config.ConfigurableReference):
    return ['ref', _sel(v.configurable.selector)] + (['/'.join(v.scopes)] if v.scopes else [])
  if isinstance(v, config._UnknownConfigurableReference):
    return ['unk', v.selector]
  return ['lit', v]


def project_cfg(config):
  return sorted([scope, _sel(sel), p, _val(config, v)] for (scope, sel), d in config._CONFIG.items() for p, v in d.items())


def project_prov(config):
  out = []
  for (scope, sel), d in config._CONFIG_PROVENANCE.items():
    for p, loc in d.items():
      if loc is not None and loc.filename:
        out.append([scope, _sel(sel), p, os.path.basename(loc.filename)[:-4], loc.line_num])
  return sorted(out)


def compare(case, obs):
  """Returns None or (clause, expected, got)."""
  r = case['result']
  if r['status'] != obs['status']:
    return ('status', r['status'], obs['status'] + ': ' + obs.get('msg', '')[:300])
  want_cfg = sorted([b['scope'], b['sel'], b['param'], list(b['val'])] for b in r['cfg'])
  if want_cfg != obs['cfg']:
    return ('applied-statements', want_cfg, obs['cfg'])
  real = lambda f, l: LINEMAPS.get(f, {}).get(l, l)
  want_prov = sorted([b['scope'], b['sel'], b['param'], b['file'], real(b['file'], b['line'])] for b in r['prov'])
  if want_prov != obs['prov']:
    return ('provenance', want_prov, obs['prov'])
  if r['status'] not in ('ok', 'SyntaxError'):
    want_chain = [[f, real(f, l)] for f, l in r['chain']]
    if want_chain != obs.get('chain'):
      return ('location-chain', want_chain, obs.get('chain'))
  if r['status'] == 'ok':
    want_tree = [_tree(t) for t in r['tree']]
    if want_tree != obs['tree']:
      return ('returned-tree', want_tree, obs['tree'])
  if 'recorded' in r and sorted(r['recorded']) != obs['recorded']:
    return ('recorded-imports', sorted(r['recorded']), obs['recorded'])
  if obs['restored'] != dict(contexts=1, scope=[], locked=False):
    return ('restored', dict(contexts=1, scope=[], locked=False), obs['restored'])
  if obs['after'] != 'after':
    return ('later-parse-as-fresh', 'after', obs['after'])
  return None


def _tree(t):
  return dict(file=t['file'], imports=list(t['imports']), includes=[_tree(x) for x in t['includes']])
