"""Adapter between GinParse.tla and gin's file-level parsing entry points."""
import contextlib
import io
import os
import re
import shutil
import sys
import tempfile
import tokenize

from ginverif import core

SYNTAX_TEXTS = ['f.p = ]', 'f.p =', 'f..p = 1', "'''unterminated", 'f.p = [1', 'f.p = 1 2', 'f.p == 1', 'f.p = {1:}',
                'f/ p.q = 1', 'f.p = 1 +', 'g: 1', 'f.p = $']
_STATE = {}


def setup():
  import logging
  logging.disable(logging.CRITICAL)
  gin = core.import_gin()
  from gin import config
  if not _STATE:
    def f(p=None, q=None):
      return p, q
    f.__module__ = 'gvparse'

    def g(p=None):
      return p
    g.__module__ = 'gvparse'
    _STATE['f'] = gin.external_configurable(f, name='f', module='gvparse', denylist=['q'])
    _STATE['g'] = gin.external_configurable(g, name='g', module='gvparse')
    d = tempfile.mkdtemp(prefix='ginverif_mod_')
    with open(os.path.join(d, 'gvmod_ok.py'), 'w') as fh:
      fh.write('X = 1\n')
    sys.path.insert(0, d)
    _STATE['moddir'] = d
  return gin, config


def teardown():
  d = _STATE.get('moddir')
  if d:
    shutil.rmtree(d, ignore_errors=True)
    if d in sys.path:
      sys.path.remove(d)


def value_text(v):
  if v[0] == 'lit':
    return repr(v[1])
  if v[0] == 'ref':
    return '@%s%s()' % (v[2] + '/' if len(v) > 2 else '', v[1])
  raise AssertionError(v)


def render(doc, salt, pkgname=None):
  """Text of an abstract document: one statement per line (blocks: header plus one line per member)."""
  lines = []
  for i, s in enumerate(doc):
    t = s['t']
    if t == 'bind':
      lines.append('%s%s.%s = %s' % (s['scope'] + '/' if s['scope'] else '', s['sel'], s['param'], value_text(s['val'])))
    elif t == 'macro':
      lines.append('%s = %s' % (s['name'], value_text(s['val'])))
    elif t == 'block':
      lines.append('%s%s:' % (s['scope'] + '/' if s['scope'] else '', s['sel']))
      for p, v in s['members']:
        lines.append('  %s = %s' % (p, value_text(v)))
    elif t == 'import':
      lines.append('import %s' % s['module'])
    elif t == 'include':
      lines.append("include '%s.gin'" % (pkgname + '/p' if (s['file'] == 'p' and pkgname) else s['file']))
    elif t == 'syntax':
      lines.append(SYNTAX_TEXTS[(salt + i) % len(SYNTAX_TEXTS)])
    else:
      raise AssertionError(t)
  return '\n'.join(lines) + '\n'


class MemReader:
  """A second file reader, serving files from memory."""

  def __init__(self):
    self.files = {}

  def open(self, path):
    f = io.StringIO(self.files[path])
    f.name = path
    return contextlib.closing(f)

  def readable(self, path):
    return path in self.files


def run_case(case, salt):
  """Materialises the file store, parses root.gin with the real gin and returns the observation."""
  gin, config = setup()
  work = tempfile.mkdtemp(prefix='ginverif_parse_')
  cwd = os.getcwd()
  saved_readers = list(config._FILE_READERS)
  saved_prefixes = list(config._LOCATION_PREFIXES)
  mem = MemReader()
  obs = {}
  _STATE['n'] = _STATE.get('n', 0) + 1
  pkgname = 'gvparsepkg%d' % _STATE['n']          # package-relative names resolve through the Python path
  pkgroot = tempfile.mkdtemp(prefix='ginverif_pkg_')
  os.mkdir(os.path.join(pkgroot, pkgname))
  open(os.path.join(pkgroot, pkgname, '__init__.py'), 'w').close()
  sys.path.insert(0, pkgroot)
  import importlib
  importlib.invalidate_caches()
  try:
    os.chdir(work)
    locpath = {'': ''}
    for loc in ('L1', 'L2'):
      p = os.path.join(work, loc)
      os.mkdir(p)
      locpath[loc] = p
      gin.add_config_file_search_path(p)
    config.register_file_reader(mem.open, mem.readable)
    expected_first = {n: (r[1] if r[0] == 'found' else None) for n, r in case['resolved'].items()}
    for loc, reader, name in case['present']:
      text = render(case['files'][name], salt, pkgname)
      if expected_first.get(name) and [loc, reader, name] != list(expected_first[name]):
        text = "gvparse.f.p = 'WRONG-PLACEMENT-%s-%s'\n" % (loc, reader)      # reading this one would be a resolution error
      path = os.path.join(locpath[loc], name + '.gin')
      if name == 'p' and reader != 'pkg':
        path = os.path.join(locpath[loc], pkgname, 'p.gin')       # the same relative name under a search location
      if reader == 'pkg':
        with open(os.path.join(pkgroot, pkgname, name + '.gin'), 'w') as fh:
          fh.write(text)
      elif reader == 'r1':
        if os.path.dirname(path):
          os.makedirs(os.path.dirname(path), exist_ok=True)
        with open(path, 'w') as fh:
          fh.write(text)
      else:
        mem.files[path] = text
    gin.clear_config()
    sk = case['skip']
    skip = {'false': False, 'true': True}.get(sk['mode'])
    if skip is None:
      skip = [list(sk['names']), tuple(sk['names']), set(sk['names'])][salt % 3]
    try:
      res = gin.parse_config_file('root.gin', skip_unknown=skip)
      obs['status'] = 'ok'
      obs['tree'] = tree_of(res)
    except BaseException as e:  # pylint: disable=broad-except
      obs['status'] = status_of(e)
      obs['msg'] = str(e)
      obs['chain'] = [[os.path.basename(a)[:-4], int(b)] for a, b in re.findall(r'In file "([^"]*)", line (\d+)', str(e))]
      obs['tree'] = []
    obs['cfg'] = project_cfg(config)
    obs['prov'] = project_prov(config)
    obs['restored'] = dict(contexts=len(config._PARSE_CONTEXTS), scope=list(gin.current_scope()), locked=gin.config_is_locked())
    # later parsing behaves as in a fresh process with that prefix applied
    try:
      gin.parse_config("gvparse.g.p = 'after'")
      obs['after'] = config._CONFIG.get(('', 'gvparse.g'), {}).get('p')
    except Exception as e:  # pylint: disable=broad-except
      obs['after'] = 'RAISED %s: %s' % (type(e).__name__, e)
    return obs
  finally:
    os.chdir(cwd)
    config._FILE_READERS[:] = saved_readers
    config._LOCATION_PREFIXES[:] = saved_prefixes
    gin.clear_config()
    shutil.rmtree(work, ignore_errors=True)
    if pkgroot in sys.path:
      sys.path.remove(pkgroot)
    sys.modules.pop(pkgname, None)
    shutil.rmtree(pkgroot, ignore_errors=True)


def status_of(e):
  if isinstance(e, (SyntaxError, tokenize.TokenError)):
    return 'SyntaxError'
  if isinstance(e, ImportError):
    return 'ImportError'
  if isinstance(e, OSError):
    return 'IOError'
  return type(e).__name__


def tree_of(res):
  return [dict(file=os.path.basename(res.filename)[:-4], imports=list(res.imports), includes=[x for r in res.includes for x in tree_of(r)])]


def _sel(s):
  return s[len('gvparse.'):] if s.startswith('gvparse.') else s


def _val(config, v):
  if isinstance(v, config.ConfigurableReference):
    return ['ref', _sel(v.configurable.selector)] + (['/'.join(v.scopes)] if v.scopes else [])
  if isinstance(v, config._UnknownConfigurableReference):
    return ['unk', v.selector]
  return ['lit', v]


def project_cfg(config):
  return sorted([scope, _sel(sel), p, _val(config, v)] for (scope, sel), d in config._CONFIG.items() for p, v in d.items())


def project_prov(config):
  out = []
  for (scope, sel), d in config._CONFIG_PROVENANCE.items():
    for p, loc in d.items():
      if loc is not None and loc.filename:
        out.append([scope, _sel(sel), p, os.path.basename(loc.filename)[:-4], loc.line_num])
  return sorted(out)


def compare(case, obs):
  """Returns None or (clause, expected, got)."""
  r = case['result']
  if r['status'] != obs['status']:
    return ('status', r['status'], obs['status'] + ': ' + obs.get('msg', '')[:300])
  want_cfg = sorted([b['scope'], b['sel'], b['param'], list(b['val'])] for b in r['cfg'])
  if want_cfg != obs['cfg']:
    return ('applied-statements', want_cfg, obs['cfg'])
  want_prov = sorted([b['scope'], b['sel'], b['param'], b['file'], b['line']] for b in r['prov'])
  if want_prov != obs['prov']:
    return ('provenance', want_prov, obs['prov'])
  if r['status'] not in ('ok', 'SyntaxError'):
    want_chain = [[f, l] for f, l in r['chain']]
    if want_chain != obs.get('chain'):
      return ('location-chain', want_chain, obs.get('chain'))
  if r['status'] == 'ok':
    want_tree = [_tree(t) for t in r['tree']]
    if want_tree != obs['tree']:
      return ('returned-tree', want_tree, obs['tree'])
  if obs['restored'] != dict(contexts=1, scope=[], locked=False):
    return ('restored', dict(contexts=1, scope=[], locked=False), obs['restored'])
  if obs['after'] != 'after':
    return ('later-parse-as-fresh', 'after', obs['after'])
  return None


def _tree(t):
  return dict(file=t['file'], imports=list(t['imports']), includes=[_tree(x) for x in t['includes']])


def entry_point_case(case, salt, finalize):
  """parse_config_files_and_bindings: files in order, then the extra bindings, then finalize iff asked.
  Only for cases that parse cleanly.  Returns None or (clause, expected, got)."""
  gin, config = setup()
  work = tempfile.mkdtemp(prefix='ginverif_parse_')
  cwd = os.getcwd()
  try:
    os.chdir(work)
    for name in ('root', 'a', 'b', 'p'):
      with open(os.path.join(work, name + '.gin'), 'w') as fh:
        fh.write(render(case['files'][name], salt))
    with open(os.path.join(work, 'second.gin'), 'w') as fh:
      fh.write("gvparse.f.p = 'from-second-file'\ngvparse.g.p = 'from-second-file'\n")
    gin.clear_config()
    sk = case['skip']
    skip = {'false': False, 'true': True}.get(sk['mode'], list(sk['names']))
    gin.parse_config_files_and_bindings(['root.gin', 'second.gin'], ["gvparse.g.p = 'from-bindings'"],
                                        finalize_config=finalize, skip_unknown=skip)
    got = dict(f=config._CONFIG.get(('', 'gvparse.f'), {}).get('p'), g=config._CONFIG.get(('', 'gvparse.g'), {}).get('p'),
               locked=gin.config_is_locked())
    want = dict(f='from-second-file', g='from-bindings', locked=bool(finalize))
    return None if got == want else ('entry-point-order', want, got)
  except Exception as e:  # pylint: disable=broad-except
    if finalize and isinstance(e, ValueError) and ('unknown' in str(e).lower() or 'No configurable matching' in str(e)):
      return None      # finalize legitimately rejects placeholders for unknown references
    return ('entry-point-order', 'no exception', '%s: %s' % (type(e).__name__, str(e)[:200]))
  finally:
    os.chdir(cwd)
    gin.clear_config()
    shutil.rmtree(work, ignore_errors=True)
