"""Adapter between GinCore.tla and the real gin.config.

A `World` owns one isolated configuration: it registers probe configurables built
from the specification's descriptors, executes abstract actions (the `out` record of
a specification state names the action and its arguments) against the real API,
returns the observable result in the specification's vocabulary, and projects the
real module state onto the specification's variables.
"""
import ast
import copy
import collections
import contextlib
import os
import random
import re
import sys
import types
import zlib

from ginverif import core


class AdapterError(Exception):
  """The harness cannot find something it needs in gin (machinery failure)."""


def dotted(sel):
  return '.'.join(sel)


def scope_str(scope):
  return '/'.join(scope)


def scope_seq(s):
  return [c for c in s.split('/')] if s else []


class NonLit:
  """A value with no literal representation."""

  def __init__(self, name):
    self.name = name

  def __repr__(self):
    return '<nonlit %s>' % self.name

  def __deepcopy__(self, memo):
    return self

  def __eq__(self, other):
    return isinstance(other, NonLit) and other.name == self.name

  def __hash__(self):
    return hash(('nonlit', self.name))


class EqAny:
  """A caller-supplied value that compares equal to everything (like unittest.mock.ANY): the wrapper may only ever
  ask whether a value *is* a marker, never whether it equals one."""

  def __init__(self, tag):
    self.tag = tag

  def __eq__(self, other):
    return True

  def __ne__(self, other):
    return False

  def __hash__(self):
    return 0

  def __deepcopy__(self, memo):
    return self

  def __repr__(self):
    return '<EqAny %r>' % (self.tag,)


class IdentityObj(NonLit):
  """The value of a Python-defined constant: it is that very object that must be delivered, so - unlike the other
  pool values - a deep copy of it is a different (recognisable) object."""

  def __deepcopy__(self, memo):
    return IdentityObj(self.name)


class EqArray:
  """A caller-supplied value whose `==` is element-wise (like a NumPy array): the result has no truth value."""

  def __init__(self, tag):
    self.tag = tag

  def __eq__(self, other):
    return BoolRaises()

  def __ne__(self, other):
    return BoolRaises()

  __hash__ = None

  def __deepcopy__(self, memo):
    return self

  def __repr__(self):
    return '<EqArray %r>' % (self.tag,)


class HookError(Exception):
  """Raised by a probe finalize hook that is specified to fail."""


class BoolRaises:
  """An invalid scope argument whose truth test raises (like a NumPy array)."""

  def __bool__(self):
    raise ValueError('The truth value of this object is ambiguous.')


_NT = collections.namedtuple('_NT', ['a', 'b'])

# Concrete Python values behind the specification's abstract literal ids.  They stress the text
# level (quoting, escapes, line wrapping, numeric edge cases); all are literally representable.
LIT_POOL = [
    's', 7, -3, 2.5, -0.0, 1e300, 10**20, True, 'none-like',   # pairwise unequal (no 0 / False next to -0.0, no 1 next to True): they also serve as dict
                                                        # keys; their equal-but-differently-typed twins are made by _twin()
    b'by', 'with space', 'qu\'ote"s', 'line\nbreak', ' lead ',
    (1, 'a'), [1, [2, 'x']], {'k': (1,), 2: None}, 'x' * 90, 'back\\slash', 1e-7, -10**15,
    'long ' * 30, [('t', 1.5), {'n': [None, True]}], 'unicod\u00e9',
    b'long bytes ' * 12, [b'wrapped ' * 15, 'x'],            # wider than any line width: pprint wraps them into adjacent literals
]
# ... and values with no literal form (must be omitted from config strings, never printed)
def _nonlit_pool():
  # (every value here survives copy.deepcopy recognisably: no bare object() instances)
  return [float('inf'), float('-inf'), float('nan'), {1, 2}, 1 + 2j, NonLit('pool-object'), frozenset([3]), _NT(1, 2),
          range(3), [1, {2, 3}], {'k': float('inf')}, (1, len), collections.OrderedDict(a=1), len]


# literals with a fixed meaning: values that are false / None in Python
NAMED_LITS = {'None': None, 'zero': 0, 'empty': ''}


def _vkey(x):
  """Canonical, hashable identity of a concrete value: type-exact, dict / set order independent."""
  if isinstance(x, dict) and type(x) is dict:
    return ('dict', tuple(sorted((_vkey(k), _vkey(v)) for k, v in x.items())))
  if type(x) in (list, tuple):
    return (type(x).__name__, tuple(_vkey(i) for i in x))
  if type(x) in (set, frozenset):
    return (type(x).__name__, tuple(sorted(_vkey(i) for i in x)))
  return (type(x).__name__, repr(x))


def _twin(x):
  """A value equal to x but of a different type somewhere inside (None if there is none)."""
  def tw(y):
    if y is True:
      return 1
    if y is False:
      return 0
    if type(y) is int and y in (0, 1):
      return bool(y)
    if type(y) is int and abs(y) < 2**50:
      return float(y)
    if type(y) is float and y == int(y) and abs(y) < 2**50 and repr(y) != '-0.0':
      return int(y)
    if type(y) in (list, tuple):
      return type(y)(tw(i) for i in y)
    if type(y) is dict:
      return {k: tw(v) for k, v in y.items()}
    return y
  try:
    t = tw(x)
    return t if _vkey(t) != _vkey(x) and t == x else None
  except (TypeError, ValueError, OverflowError):
    return None


def _immutable(x):
  return not isinstance(x, (list, dict, set)) and (not isinstance(x, tuple) or all(_immutable(i) for i in x))


class Result:
  """What a 'record' probe returns: a fresh object per invocation."""
  counter = [0]

  def __init__(self, world, sel, scope, delivered, va, kw):
    Result.counter[0] += 1
    self.serial = Result.counter[0]
    self.world, self.sel, self.scope = world, sel, scope
    self.delivered, self.va, self.kw = delivered, va, kw

  def __deepcopy__(self, memo):
    return self

  def __bool__(self):
    return False        # results are deliberately falsy: nothing in gin may depend on the truth value of a value


class World:

  def __init__(self, descriptors, pool_seed=None):
    self.gin = core.import_gin()
    from gin import config
    self.config = config
    self.evals = []
    self.probes = {}       # dotted selector -> callable to call from Python
    self.originals = {}    # dotted selector -> original function / class
    self.desc = {}
    self.ran = False
    self.cms = []          # open config_scope context managers
    self.unlock_cms = []
    self.nonlits = {}
    World.serial = getattr(World, 'serial', 0) + 1
    self.pool_seed = core.seed() * 100003 + World.serial if pool_seed is None else pool_seed
    self.rng = random.Random(self.pool_seed)
    self.lit_pool = list(LIT_POOL)
    self.rng.shuffle(self.lit_pool)
    self.nonlit_pool = _nonlit_pool()
    self.rng.shuffle(self.nonlit_pool)
    self.lits = {}          # literal id -> concrete value
    self.lit_ids = {}       # (type, repr) -> literal id
    self.plain_lits = os.environ.get('GINVERIF_PLAIN_LITS') == '1'
    self.call_log = []
    self.step = 0
    self._reg_before = dict(config._REGISTRY.items())
    self._inv_before = dict(config._INVERSE_REGISTRY)
    self._hooks_before = list(config._FINALIZE_HOOKS)
    self._hard_reset()
    self._in_helper = False
    self.reserved = set()   # selectors that the behaviour being replayed registers later
    self.published = []     # module names this world put into sys.modules
    self.twins = {}         # dotted selector of a twin registration -> selector that owns the shared function
    self.calling = None
    self.reg_status = {}    # dotted selector -> 'ok' / exception class: every initial descriptor is valid by construction
    for d in descriptors:
      if d.get('twin') and not d.get('twin_of'):
        d['twin_of'] = dotted(d['twin'])
    descriptors = sorted(descriptors, key=lambda d: bool(d.get('twin_of')))     # owners before their twins
    self.all_desc = list(descriptors)
    for d in descriptors:
      if d['kind'] == 'meth':
        continue        # registered together with (just before) its class
      self.reg_status[dotted(d['sel'])] = self.register(d)
    for d in descriptors:
      if d['kind'] == 'meth' and dotted(d['sel']) not in self.desc:
        self.reg_status[dotted(d['sel'])] = 'method without its class in the registry'

  # -- lifecycle -------------------------------------------------------------
  def _hard_reset(self):
    """Isolation between worlds must not depend on the clear_config under test."""
    config = self.config
    try:
      self.gin.clear_config(clear_constants=True)
    except Exception:  # pylint: disable=broad-except
      pass
    for name in ('_CONFIG', '_CONFIG_PROVENANCE', '_IMPORTS', '_OPERATIVE_CONFIG', '_SINGLETONS'):
      store = getattr(config, name, None)
      if store is not None:
        store.clear()
    consts = config._CONSTANTS
    try:
      for k in [k for k, _ in list(consts.items()) if k != 'gin.REQUIRED']:
        consts.pop(k)
    except Exception:  # pylint: disable=broad-except
      # the map under test cannot even be emptied entry by entry: start from a new one
      from gin import selector_map
      config._CONSTANTS = selector_map.SelectorMap()
      config._CONSTANTS['gin.REQUIRED'] = config.REQUIRED
    config._set_config_is_locked(False)

  def close(self):
    config = self.config
    while self.cms:
      try:
        self.cms.pop().__exit__(None, None, None)
      except Exception:  # pylint: disable=broad-except
        pass
    while self.unlock_cms:
      try:
        self.unlock_cms.pop().__exit__(None, None, None)
      except Exception:  # pylint: disable=broad-except
        pass
    # a scope stack left unbalanced by the code under test must not leak into the next world
    config._SCOPE_MANAGER = config._ScopeManager()
    config._INTERACTIVE_MODE = False
    config._FINALIZE_HOOKS[:] = self._hooks_before
    self._hard_reset()
    core.restore_registry(config, self._reg_before, self._inv_before)
    config._RENAMED_SELECTORS.clear()
    for mname in self.published:
      sys.modules.pop(mname, None)

  # the specification's "left by an exception" is concretised by every kind of exception a `with` body can be left
  # by: an ordinary error, the non-Exception BaseExceptions, and the GeneratorExit of a generator closed while
  # suspended inside the block
  EXIT_EXCEPTIONS = (KeyError, KeyboardInterrupt, SystemExit, GeneratorExit, ValueError, StopIteration)

  def _leave(self, cm, by_exception):
    if not by_exception:
      cm.__exit__(None, None, None)
      return None
    cls = self.EXIT_EXCEPTIONS[(self.step + self.pool_seed) % len(self.EXIT_EXCEPTIONS)]
    exc = cls('body failed')
    try:
      cm.__exit__(cls, exc, None)
    except BaseException as e:  # pylint: disable=broad-except
      if e is not exc and e.__cause__ is not exc and e.__context__ is not exc:
        raise
    return cls.__name__

  # -- probes ----------------------------------------------------------------
  def _signature_src(self, d, with_self):
    parts = (['self'] if with_self else [])
    pos = list(d['pos'])
    npd = d['npd']
    dflt = {e[0]: e[1] for e in d['dflt']}
    for i, p in enumerate(pos):
      if i >= len(pos) - npd:
        parts.append('%s=_D[%r]' % (p, p))
      else:
        parts.append(p)
    if d['va']:
      parts.append('*args')
    elif d['kwo']:
      parts.append('*')
    for k in d['kwo']:
      if k in d['kwd']:
        parts.append('%s=_D[%r]' % (k, k))
      else:
        parts.append(k)
    if d['vk']:
      parts.append('**kw')
    names = (['self'] if with_self else []) + pos + list(d['kwo'])
    return ', '.join(parts), names, {k: self.to_real(v) for k, v in dflt.items()}

  def register(self, d):
    """Builds a probe with exactly the descriptor's signature and registers it through the
    descriptor's API.  Returns 'ok' or the exception class name."""
    gin = self.gin
    sel = dotted(d['sel'])
    if d['api'] == 'builtin':      # gin.macro / gin.constant / gin.singleton are registered by gin itself
      self.desc[sel] = d
      return 'ok'
    module, name = '.'.join(d['sel'][:-1]), d['sel'][-1]
    world = self
    is_cls = d['kind'] == 'cls'
    sig, names, defaults = self._signature_src(d, with_self=is_cls)
    if d.get('twin') and not d.get('twin_of'):
      d['twin_of'] = dotted(d['twin'])
    if d.get('twin_of'):
      # the very same function registered once more under another name, with its own allow / deny lists
      if d['twin_of'] not in self.originals:
        return 'owner of the shared function was not registered'
      obj = self.originals[d['twin_of']]
      allow = None if list(d['allow']) == ['*'] else list(d['allow'])
      try:
        if d['api'] == 'register':
          gin.register(name, module=module or None, allowlist=allow, denylist=list(d['deny']) or None)(obj)
          wrapped = None
        else:
          wrapped = gin.external_configurable(obj, name=name, module=module or None, allowlist=allow, denylist=list(d['deny']) or None)
      except (ValueError, TypeError, RuntimeError) as e:
        return type(e).__name__
      self.desc[sel] = d
      self.twins[sel] = d['twin_of']
      self.probes[sel] = wrapped
      return 'ok'

    def record(loc):
      world.ran = True
      delivered = {n: loc[n] for n in names}
      va = list(loc.get('args', ()))
      kw = dict(loc.get('kw', {}))
      # a function shared by two registrations cannot know which one was called: the harness says so
      me = world.calling if (world.calling and world.twins.get(world.calling) == sel) else sel
      r = Result(world, me, list(gin.current_scope()), delivered, va, kw)
      world.evals.append(r)
      if d['body'] == 'macro':
        return delivered['value']
      return r

    ns = {'_D': defaults, '_record': record, '__name__': module or 'gvprobe'}
    methods = [m for m in getattr(self, 'all_desc', []) if m['kind'] == 'meth' and list(m['sel'][:-1]) == list(d['sel'])] if is_cls else []
    if is_cls:
      src = ('class %s:\n  """probe class"""\n  def __init__(%s):\n    self._rec = _record(locals())\n' % (name, sig))
      for m in methods:
        msig, mnames, mdefaults = self._signature_src(m, with_self=True)
        ns['_D_' + m['sel'][-1]] = mdefaults
        src += '  def %s(%s):\n    return _mrecord(%r, locals())\n' % (m['sel'][-1], msig.replace('_D[', '_D_%s[' % m['sel'][-1]), dotted(m['sel']))

      def mrecord(msel, loc):
        world.ran = True
        r = Result(world, msel, list(gin.current_scope()), {k: v for k, v in loc.items() if k not in ('args', 'kw')},
                   list(loc.get('args', ())), dict(loc.get('kw', {})))
        world.evals.append(r)
        return r
      ns['_mrecord'] = mrecord
    else:
      src = 'def %s(%s):\n  """probe function"""\n  return _record(locals())\n' % (name, sig)
    exec(src, ns)  # pylint: disable=exec-used
    obj = ns[name]
    obj.__module__ = module or 'gvprobe'
    if d.get('deco'):
      import functools
      inner = obj

      @functools.wraps(inner)
      def passthrough(*args, **kwargs):       # somebody else's decorator, applied before registration
        return inner(*args, **kwargs)
      obj = passthrough
    allow = None if list(d['allow']) == ['*'] else list(d['allow'])
    deny = list(d['deny']) or None
    kwargs = dict(module=module or None, allowlist=allow, denylist=deny)
    try:
      for m in methods:
        # a method is registered on its own (inside the class body, in real code) before its class is: registering the
        # class then renames its entry to <class selector>.<method>
        mallow = None if list(m['allow']) == ['*'] else list(m['allow'])
        gin.register(allowlist=mallow, denylist=list(m['deny']) or None)(getattr(obj, m['sel'][-1]))
      if d['api'] == 'configurable':
        wrapped = gin.configurable(name, **kwargs)(obj)
      elif d['api'] == 'external':
        wrapped = gin.external_configurable(obj, name=name, **kwargs)
      else:
        gin.register(name, **kwargs)(obj)
        wrapped = None
    except (ValueError, TypeError, RuntimeError) as e:
      return type(e).__name__
    self.desc[sel] = d
    self.originals[sel] = obj
    self.probes[sel] = wrapped
    # like real code, a probe is an attribute of the module it claims to live in (what a config with dynamic registration,
    # or the import lines of such a config string, refer to)
    self._publish(module or 'gvprobe', name, wrapped if (d['api'] == 'configurable' and wrapped is not None) else obj)
    for m in methods:
      self.desc[dotted(m['sel'])] = m
      self.originals[dotted(m['sel'])] = getattr(obj, m['sel'][-1])
      self.probes[dotted(m['sel'])] = None
      self.reg_status[dotted(m['sel'])] = 'ok'
    return 'ok'

  def _publish(self, module, name, attr):
    parts = module.split('.')
    for i in range(1, len(parts) + 1):
      mname = '.'.join(parts[:i])
      mod = sys.modules.get(mname)
      if mod is None:
        mod = types.ModuleType(mname)
        mod.__path__ = []           # so that submodules can be imported from it
        sys.modules[mname] = mod
        self.published.append(mname)
      elif mname not in self.published:
        return                      # a real module of that name exists: leave it alone
      if i > 1:
        setattr(sys.modules['.'.join(parts[:i - 1])], parts[i - 1], mod)
    setattr(sys.modules[module], name, attr)

  def callable_for(self, sel):
    if (sel in self.twins or sel in self.twins.values()) and self.probes.get(sel) is None:
      # gin.register leaves the shared original untouched, and the original alone no longer identifies the
      # registration: look the registry's version up by its own name
      return self.gin.get_configurable(sel)
    if self.desc[sel]['api'] == 'builtin':
      with self.gin.config_scope(None):
        return self.gin.get_configurable(sel)
    w = self.probes.get(sel)
    if w is None:
      # gin.register leaves the original untouched: the registry's version is reached by selector
      w = self.gin.get_configurable(self.originals[sel])
    return w

  # -- values ------------------------------------------------------------------
  def to_real(self, v):
    t = v[0]
    if t == 'lit':
      if self.plain_lits:
        return v[1]
      if v[1] in NAMED_LITS:
        if v[1] not in self.lits:
          self.lits[v[1]] = NAMED_LITS[v[1]]
          self.lit_ids[_vkey(NAMED_LITS[v[1]])] = v[1]
      if v[1] not in self.lits:
        pool = self.lit_pool
        keyish = v[1] in ('1', '2')                          # '1' / '2' also serve as dict keys: hashable, pairwise unequal
        if v[1].startswith('d_') or keyish:
          # signature defaults are handed over by Python itself (the same object at every call): a consumer
          # mutating a mutable default is ordinary Python, not something Gin can prevent
          pool = [x for x in self.lit_pool if _immutable(x)]
        val = pool[-1] if pool else 'lit-' + v[1]
        # every other literal that is not a dict key is an equal-but-differently-typed twin of a value already in
        # play (1 / True / 1.0, (0,) / (False,) ...): the specification's literals are distinct values, so nothing may
        # ever treat "compares equal" as "is the same value"
        twins = [t2 for t2 in (_twin(x) for x in self.lits.values()) if t2 is not None and _vkey(t2) not in self.lit_ids
                 and (_immutable(t2) or not v[1].startswith('d_'))]
        if twins and not keyish and self.rng.random() < 0.5:
          val = twins[self.rng.randrange(len(twins))]
        elif pool:
          self.lit_pool = [x for x in self.lit_pool if x is not val]
        self.lits[v[1]] = val
        self.lit_ids[_vkey(val)] = v[1]
      return copy.deepcopy(self.lits[v[1]])
    if t == 'nonlit':
      if v[1] not in self.nonlits:
        # identity-carrying sentinels for ids starting with 'o' (constants), otherwise pool values
        if v[1].startswith('o'):
          self.nonlits[v[1]] = IdentityObj(v[1])
        elif not self.nonlit_pool or self.plain_lits:
          self.nonlits[v[1]] = NonLit(v[1])
        else:
          self.nonlits[v[1]] = self.nonlit_pool.pop()
      return self.nonlits[v[1]]
    if t == 'req':
      return self.gin.REQUIRED
    if t in ('cp', 'ck'):
      # every other caller value is an object that compares equal to anything
      k = (self.step + self.pool_seed + len(str(v[1]))) % 4
      return EqAny((t, v[1])) if k == 1 else (EqArray((t, v[1])) if k == 3 else (t, v[1]))
    if t == 'ref':
      text = self._ref_text(v)
      return self.config.parse_value(text)
    if t == 'pct':
      return self.config.parse_value('%' + dotted(v[1]))
    if t == 'list':
      return [self.to_real(x) for x in v[1]]
    if t == 'tuple':
      return tuple(self.to_real(x) for x in v[1])
    if t == 'dict':
      return {self.to_real(k): self.to_real(x) for k, x in v[1]}
    raise AdapterError('cannot concretise %r' % (v,))

  def to_spec(self, x):
    """Real value -> specification value (JSON shape)."""
    config = self.config
    if x is self.gin.REQUIRED:
      return ['req']
    if isinstance(x, (EqAny, EqArray)):
      return [x.tag[0], x.tag[1]]
    if isinstance(x, Result):
      return ['res', x.sel.split('.'), x.scope, self.map_to_spec(x.delivered)]
    for name, obj in self.nonlits.items():
      if obj is x:
        return ['nonlit', name]
    k = _vkey(x)
    if k in self.lit_ids:
      return ['lit', self.lit_ids[k]]
    for name, obj in self.nonlits.items():
      if not isinstance(obj, NonLit) and _vkey(obj) == k:
        return ['nonlit', name]
    if isinstance(x, NonLit):
      # identity matters: a constant must be delivered as that very object
      return ['nonlit', x.name] if self.nonlits.get(x.name) is x else ['nonlit-copy', x.name]
    if isinstance(x, str):
      return ['lit', x]
    if isinstance(x, tuple) and len(x) == 2 and x[0] in ('cp', 'ck'):
      return [x[0], x[1]]
    if isinstance(x, config.ConfigurableReference):
      return ['ref', x.configurable.selector.split('.'), list(x.scopes), 'call' if x.evaluate else 'bare']
    if isinstance(x, list):
      return ['list', [self.to_spec(i) for i in x]]
    if isinstance(x, tuple):
      return ['tuple', [self.to_spec(i) for i in x]]
    if isinstance(x, dict):
      return ['dict', [[self.to_spec(k), self.to_spec(v)] for k, v in x.items()]]
    if isinstance(x, type):
      c = config._inverse_lookup(x)
      if c is not None and x is c.wrapper:          # gin.configurable on a class: the class itself is the configurable
        return ['fnref', c.selector.split('.'), []]
    for sel, obj in self.originals.items():
      if isinstance(x, type) and isinstance(obj, type) and (x is obj):
        return ['orig', sel.split('.')]
      if self.desc[sel]['kind'] == 'cls' and isinstance(obj, type) and isinstance(x, obj) and hasattr(x, '_rec'):
        if x._rec.delivered.get('self') is x:
          return self.to_spec(x._rec)
    if callable(x):
      c = config._inverse_lookup(x, allow_decorators=True)
      if c is None and isinstance(x, type):
        for base in x.__mro__[1:]:
          c = config._inverse_lookup(base, allow_decorators=True)
          if c is not None:
            break
      if c is not None:
        return ['fnref', c.selector.split('.'), [] if x is c.wrapper else 'scoped']
    return ['opaque', type(x).__name__]

  def map_to_spec(self, m):
    out = []
    for k in sorted(m):
      v = m[k]
      if k == 'self':
        out.append([k, ['self']])
      else:
        out.append([k, self.to_spec(v)])
    return out

  # -- actions -----------------------------------------------------------------
  def project_store(self, store):
    return {str(k): sorted([p, core.jdump(self.to_spec(v))] for p, v in d.items()) for k, d in store.items()}

  # actions whose effect is on process-wide state only: every third one is carried out by another thread (the
  # configuration, its lock, the registry and the constants are shared by all threads; only the scope stack is per thread)
  CROSS_THREAD = ('Bind', 'Finalize', 'Register', 'Clear', 'DefineConstant', 'Query', 'QueryConst')

  def apply(self, o):
    """Executes the action described by a specification `out` record; returns the real
    observable result as a dict with the same keys."""
    if (o['op'] in self.CROSS_THREAD and not self.cms and not self.unlock_cms and not self._in_helper
        and (self.step + self.pool_seed) % 3 == 0 and len(self.gin.current_scope()) == 0):
      import threading
      box = {}

      def run():
        self._in_helper = True
        try:
          box['res'] = self._apply(o)
        except BaseException as e:  # pylint: disable=broad-except
          box['exc'] = e
        finally:
          self._in_helper = False
      t = threading.Thread(target=run, name='gin-helper')
      t.start()
      t.join()
      if 'exc' in box:
        raise box['exc']
      return box['res']
    return self._apply(o)

  def _apply(self, o):
    op = o['op']
    gin = self.gin
    world = self
    res = {'op': op}
    self.step += 1
    if op == 'Bind':
      res.update(self.bind(o))
    elif op == 'EnterScope':
      invalids = ['inv@lid', 4, ['ok', 'b@d'], BoolRaises(), 'a//b', 3.5]
      arg = {'name': lambda: scope_str(o['comps']), 'list': lambda: list(o['comps']),
             'clear': lambda: (None if self.step % 2 else ''),
             'invalid': lambda: invalids[self.step % len(invalids)]}[o['how']]()
      cm = gin.config_scope(arg)
      try:
        got = cm.__enter__()
        self.cms.append(cm)
        res['status'] = 'ok'
        res['yielded'] = list(got)
      except ValueError:
        res['status'] = 'ValueError'
    elif op == 'ExitScope':
      res['exc'] = self._leave(self.cms.pop(), o['byException'])
      res['status'] = 'ok'
    elif op == 'Call':
      res.update(self.call(dotted(o['sel']), o['pargs'], o['ckw']))
    elif op == 'Finalize':
      world.hook_views = []
      before = world.project_store(self.config._CONFIG)
      try:
        gin.finalize()
        res['status'] = 'ok'
      except HookError:
        res['status'] = 'HookError'
      except (ValueError, RuntimeError, KeyError) as e:
        res['status'] = type(e).__name__
        res['msg'] = str(e)
      # every hook must have seen the configuration as parsed (before any hook's bindings)
      res['sawParsed'] = all(v == before for v in world.hook_views)
    elif op == 'RegisterHook':
      h = o['hook']
      rets = {}
      for k in h['rets']:
        key = '%s%s.%s' % (scope_str(k['scope']) + '/' if k['scope'] else '', dotted(k['spelling']), k['param'])
        rets[key] = self.to_real(k['val'])
      raises = h['raises']

      def hook(config, rets=rets, raises=raises):
        world.hook_views.append(world.project_store(config))
        if raises:
          raise HookError('hook failed')
        return dict(rets) if rets else None

      self.config.register_finalize_hook(hook)
      res['status'] = 'ok'
    elif op == 'UnlockEnter':
      cm = gin.unlock_config()
      cm.__enter__()
      self.unlock_cms.append(cm)
      res['status'] = 'ok'
    elif op == 'UnlockExit':
      res['exc'] = self._leave(self.unlock_cms.pop(), o['byException'])
      res['status'] = 'ok'
    elif op == 'Register':
      res['status'] = self.register(o['conf'])
    elif op == 'QueryConst':
      try:
        res['val'] = self.to_spec(gin.query_parameter(dotted(o['name'])))
        res['status'] = 'ok'
      except Exception as e:  # pylint: disable=broad-except
        res['status'] = type(e).__name__
        res['msg'] = str(e)
    elif op == 'ParseImport':
      try:
        gin.parse_config('import %s\n' % o['module'])
        res['status'] = 'ok'
      except Exception as e:  # pylint: disable=broad-except
        res['status'] = type(e).__name__
        res['msg'] = str(e)
    elif op == 'SingletonDirect':
      built = []

      def ctor():
        built.append(1)
        return self.to_real(['nonlit', 'sd'])
      try:
        self.config.singleton_value(scope_str(o['key']), ctor)
        res['status'] = 'ok'
        res['fresh'] = bool(built)
      except Exception as e:  # pylint: disable=broad-except
        res['status'] = type(e).__name__
        res['msg'] = str(e)
    elif op == 'Query':
      key = '%s%s.%s' % (scope_str(o['scope']) + '/' if o['scope'] else '', dotted(o['spelling']), o['param'])
      try:
        res['val'] = self.to_spec(gin.query_parameter(key))
        res['status'] = 'ok'
      except (ValueError, KeyError) as e:
        res['status'] = type(e).__name__
        res['val'] = ['none']
    elif op == 'DefineConstant':
      name = dotted(o['name']) if o['valid'] else dotted(o['name']) + '..bad!'
      try:
        gin.constant(name, self.to_real(o['val']))
        res['status'] = 'ok'
      except ValueError as e:
        res['status'] = 'ValueError'
        res['msg'] = str(e)
    elif op == 'SetInteractive':
      (gin.enter_interactive_mode if o['on'] else gin.exit_interactive_mode)()
      res['status'] = 'ok'
    elif op == 'GetBindings':
      key = '/'.join(list(o['scope']) + [dotted(o['spelling'])])
      self.evals = []
      try:
        b = gin.get_bindings(key, resolve_references=o['resolve'], inherit_scopes=o['inherit'])
        res['status'] = 'ok'
        res['result'] = self.map_to_spec(b)
      except BaseException as e:  # pylint: disable=broad-except
        res['status'] = type(e).__name__
        res['msg'] = str(e)
        res['result'] = []
      res['evals'] = self._evals_to_spec()
    elif op == 'Clear':
      try:
        gin.clear_config(clear_constants=o['clearConstants'])
        res['status'] = 'ok'
      except Exception as e:  # pylint: disable=broad-except
        res['status'] = type(e).__name__
    else:
      raise AdapterError('unknown action %s' % op)
    return res

  def _ref_text(self, v):
    """`@scope/name()`: every other reference is written with a shorter, still unambiguous spelling of its target
    (`@W/macro()` for gin.macro, `@g()` for m.g): what a reference denotes never depends on how it was spelled."""
    name = dotted(v[1])
    comps = list(v[1])
    # (which references are shortened depends on the world's seed and on the reference, not on when it is written)
    if (zlib.crc32(core.jdump(v).encode()) + self.pool_seed) % 2 and (self.desc.get(name) or {}).get('kind') != 'meth':
      for i in range(len(comps) - 1, 0, -1):
        cand = '.'.join(comps[i:])
        try:
          # (a name that a later registration of this behaviour would make ambiguous is not used: Gin resolves a
          # stored reference again, by its spelling, whenever it is copied)
          later = any(r != dotted(v[1]) and (r == cand or r.endswith('.' + cand)) for r in self.reserved)
          if list(self.config._REGISTRY.matching_selectors(cand)) == [name] and not later:
            name = cand
            break
        except Exception:  # pylint: disable=broad-except
          break
    return '@' + '/'.join(list(v[2]) + [name]) + ('()' if v[3] == 'call' else '')

  def literal_text(self, v):
    """Config-file text of a specification value."""
    t = v[0]
    if t == 'lit':
      return repr(self.to_real(v))
    if t == 'ref':
      return self._ref_text(v)
    if t == 'pct':
      return '%' + dotted(v[1])
    if t == 'list':
      return '[' + ', '.join(self.literal_text(x) for x in v[1]) + ']'
    if t == 'tuple':
      return '(' + ''.join(self.literal_text(x) + ', ' for x in v[1]) + ')'
    if t == 'dict':
      return '{' + ', '.join('%s: %s' % (self.literal_text(k), self.literal_text(x)) for k, x in v[1]) + '}'
    raise AdapterError('no text form for %r' % (v,))

  def bind(self, o):
    gin = self.gin
    scope, sel, param = scope_str(o['scope']), dotted(o.get('spelling') or o['sel']), o['param']
    scoped = (scope + '/' if scope else '') + sel
    api = o.get('api', 'tuple')
    res = {}
    known = bool(o.get('sel'))      # the specification resolved the target: only then is skip_unknown irrelevant
    if api in ('text', 'block'):
      try:
        self.literal_text(o['val'])
      except AdapterError:
        api = 'tuple'          # a value without a text form can only be bound programmatically
    try:
      if api == 'tuple':
        gin.bind_parameter((scope, sel, param), self.to_real(o['val']))
      elif api == 'string':
        gin.bind_parameter('%s.%s' % (scoped, param), self.to_real(o['val']))
      elif api == 'text' and sel == 'gin.macro' and param == 'value':
        # macro definition statement; skip_unknown never concerns macros (rotated to exercise that)
        skip = [False, True, [scope], ['nothing.here']][self.step % 4]
        gin.parse_config('%s = %s' % (scope, self.literal_text(o['val'])), skip_unknown=skip)
      elif api == 'text':
        # the target is registered, so every form of skip_unknown must leave the statement applied
        skip = [False, True, [sel], ('nothing.here',), {sel}][self.step % 5] if known else False
        gin.parse_config('%s.%s = %s' % (scoped, param, self.literal_text(o['val'])), skip_unknown=skip)
      elif api == 'block':
        skip = [False, True, [sel]][self.step % 3] if known else False
        gin.parse_config('%s:\n  %s = %s\n' % (scoped, param, self.literal_text(o['val'])), skip_unknown=skip)
      else:
        raise AdapterError('unknown binding api %r' % api)
      res['status'] = 'ok'
    except AdapterError:
      raise
    except Exception as e:  # pylint: disable=broad-except
      res['status'] = type(e).__name__      # any class the specification does not predict is a divergence, not a crash
      res['msg'] = str(e)
    return res

  def call(self, sel, pargs, ckw):
    fn = None if self.desc[sel]['kind'] == 'meth' else self.callable_for(sel)
    args = [self.to_real(v) for v in pargs]
    kwargs = {k: self.to_real(v) for k, v in sorted(ckw)}
    self.evals = []
    self.ran = False
    call_scope = list(self.gin.current_scope())
    res = dict(delivered=[], va=[], kw=[], missing=[], ran=False, evals=[])
    try:
      self.calling = sel
      try:
        if self.desc[sel]['kind'] == 'meth':
          inst = self.callable_for('.'.join(sel.split('.')[:-1]))()       # the instance, built by the class's configurable
          r = getattr(inst, sel.split('.')[-1])(*args, **kwargs)
        else:
          r = fn(*args, **kwargs)
      finally:
        self.calling = None
      res['status'] = 'ok'
      top = self.evals[-1] if self.evals else None
      if top is not None and top.sel == sel:
        res['delivered'] = self.map_to_spec(top.delivered)
        res['va'] = [self.to_spec(x) for x in top.va]
        res['kw'] = self.map_to_spec(top.kw)
      res['ran'] = self.ran
      res['ret'] = self.to_spec(r)
      res['evals'] = self._evals_to_spec()
      # the consumer mutates what it received: nothing stored may change (checked by the
      # state comparison that follows every step)
      if top is not None:
        for v in list(top.delivered.values()) + list(top.kw.values()) + list(top.va):
          _mutate(v)
    except BaseException as e:  # pylint: disable=broad-except
      res['status'] = type(e).__name__
      res['msg'] = str(e)
      res['ran'] = False
      m = re.search(r'Required bindings for `([^`]*)` not provided in config: (\[[^\]]*\])', str(e))
      if m:
        res['missing'] = ast.literal_eval(m.group(2))
        res['missing_for'] = m.group(1)
    if 'evals' not in res or not res['evals']:
      res['evals'] = self._evals_to_spec()
    self.call_log.append(dict(scope=call_scope, sel=sel, pargs=pargs, ckw=ckw, status=res['status'],
                              evals=[core.jdump(_norm_fnref([e['sel'], e['scope'], norm_pairs(e['delivered']),
                                                             e['va'], norm_pairs(e['kw'])])) for e in res['evals']]))
    return res

  def _evals_to_spec(self):
    return [dict(sel=r.sel.split('.'), scope=r.scope, delivered=self.map_to_spec(r.delivered),
                 va=[self.to_spec(x) for x in r.va], kw=self.map_to_spec(r.kw)) for r in self.evals]

  # -- projection --------------------------------------------------------------
  def project(self):
    config = self.config
    cfg = {}
    for (scope, sel), params in config._CONFIG.items():
      for p, v in params.items():
        cfg.setdefault((scope, sel), []).append([p, self.to_spec(v)])
      cfg.setdefault((scope, sel), [])
    oper = set()
    okeys = set()
    for (scope, sel), params in config._OPERATIVE_CONFIG.items():
      okeys.add((scope, sel))
      for p, v in params.items():
        oper.add((scope, sel, p, core.jdump(self.to_spec(v))))
    return dict(cfg=cfg, okeys=okeys, oper=oper,
                stack=[list(s) for s in config._SCOPE_MANAGER.active_scopes],
                cur=list(self.gin.current_scope()),
                locked=bool(self.gin.config_is_locked()),
                consts=set((k, core.jdump(self.to_spec(v))) for k, v in config._CONSTANTS.items() if k != 'gin.REQUIRED'),
                interactive=bool(config._INTERACTIVE_MODE),
                singles=set(config._SINGLETONS),
                imports=set(getattr(i, 'module', str(i)) for i in config._IMPORTS),
                reg=set(k for k, _ in config._REGISTRY.items() if k not in self._reg_before),
                nhooks=len(config._FINALIZE_HOOKS) - len(self._hooks_before))


def _mutate(v, depth=0):
  if depth > 3:
    return
  if isinstance(v, list):
    for x in v:
      _mutate(x, depth + 1)
    v.append('MUTATED')
  elif isinstance(v, dict):
    for x in list(v.values()):
      _mutate(x, depth + 1)
    v['MUTATED'] = 'MUTATED'
  elif isinstance(v, tuple):
    for x in v:
      _mutate(x, depth + 1)


def _norm_fnref(v):
  """Specification values -> comparison form: the scope of a delivered (uncalled) configurable is
  only observable as 'plain wrapper' vs 'scoped wrapper'; delivered maps inside result objects are
  sets of pairs (sorted here)."""
  if isinstance(v, list):
    if len(v) == 3 and v[0] == 'fnref':
      return ['fnref', v[1], [] if v[2] == [] else 'scoped']
    if len(v) == 4 and v[0] == 'res':
      return ['res', v[1], v[2], sorted([_norm_fnref(x) for x in v[3]], key=core.jdump)]
    return [_norm_fnref(x) for x in v]
  return v


def spec_projection(st):
  """The same projection computed from a specification state (JSON)."""
  cfg = {}
  for b in st['cfg']:
    cfg.setdefault((scope_str(b['scope']), dotted(b['sel'])), []).append([b['param'], b['val']])
  okeys = set((scope_str(k['scope']), dotted(k['sel'])) for k in st['okeys'])
  oper = set((scope_str(r['scope']), dotted(r['sel']), r['param'], core.jdump(r['val'])) for r in st['oper'])
  return dict(cfg=cfg, okeys=okeys, oper=oper, stack=[list(s) for s in st['stack']],
              cur=list(st['stack'][-1]), locked=bool(st['locked']),
              consts=set((dotted(k['name']), core.jdump(k['val'])) for k in st['consts']),
              interactive=bool(st['interactive']),
              singles=set(scope_str(x['key']) for x in st['singles']),
              reg=set(dotted(c['sel']) for c in st['reg'] if c['api'] != 'builtin'), nhooks=len(st['hooks']),
              imports=set(st.get('imports', ())))


def norm_pairs(x):
  return sorted([_norm_fnref(list(e)) for e in x], key=core.jdump)


def compare_out(want, got):
  """Compares the property-relevant fields of an action's observable result.
  Returns None or (field, expected, got)."""
  if want['op'] in ('none',):
    return None
  if want['op'] == 'EnterScope' and want['status'] == 'ok':
    exp = {'name': None, 'list': list(want['comps']), 'clear': []}[want['how']]
    if exp is not None and got.get('yielded') != exp:
      return ('yielded', exp, got.get('yielded'))
  if want['op'] == 'QueryConst' and want['status'] == 'ok' and got.get('status') == 'ok' and want['val'] != got.get('val'):
    return ('val', want['val'], got.get('val'))
  if want['op'] == 'Query' and want['status'] == 'ok' and want['val'] != got.get('val'):
    return ('val', want['val'], got.get('val'))
  if want['op'] == 'GetBindings' and want['status'] == 'ok' and got['status'] == 'ok':
    if norm_pairs(want['result']) != norm_pairs(got['result']):
      return ('result', norm_pairs(want['result']), norm_pairs(got['result']))
    we = [core.jdump([e['sel'], e['scope'], norm_pairs(e['delivered'])]) for e in want['evals']]
    ge = [core.jdump([e['sel'], e['scope'], norm_pairs(e['delivered'])]) for e in got['evals']]
    if we != ge:
      return ('evals', we, ge)
  if want['op'] == 'SingletonDirect' and got.get('status') == 'ok' and bool(want['fresh']) != got.get('fresh'):
    return ('constructed', bool(want['fresh']), got.get('fresh'))
  if want['op'] == 'Finalize' and got.get('sawParsed') is False:
    return ('hooks-see-config-as-parsed', True, False)
  if (want['op'] == 'Bind' and want['status'] == 'RuntimeError' and got['status'] in ('RuntimeError', 'ValueError', 'KeyError')
      and (not want.get('sel', True) or want.get('api') in ('text', 'block'))):
    # locked *and* something else is wrong with the statement (unresolvable name, ambiguous constant in the value):
    # which error comes first depends on the API path (config text parses the value and a block resolves its target
    # before bind_parameter looks at the lock); the property only says that it raises and changes nothing, and the
    # state comparison that follows checks that nothing changed
    return None
  if want['status'] != got['status']:
    return ('status', want['status'], got['status'] + (': ' + got.get('msg', '')[:200] if got.get('msg') else ''))
  if want['op'] == 'Call':
    builtin = want['sel'][0] == 'gin'
    if want['status'] == 'ok' and 'ret' in want and _norm_fnref(want['ret']) != _norm_fnref(got.get('ret')):
      return ('ret', _norm_fnref(want['ret']), _norm_fnref(got.get('ret')))
    if builtin:
      return None
    if want['status'] == 'ok':
      for f in ('delivered', 'kw'):
        if norm_pairs(want[f]) != norm_pairs(got[f]):
          return (f, norm_pairs(want[f]), norm_pairs(got[f]))
      if _norm_fnref(list(want['va'])) != _norm_fnref(list(got['va'])):
        return ('va', want['va'], got['va'])
    if want['status'] == 'RuntimeError' and want['missing']:
      if list(want['missing']) != list(got['missing']):
        return ('missing', want['missing'], got['missing'])
    if bool(want['ran']) != bool(got['ran']):
      return ('ran', want['ran'], got['ran'])
    we = [core.jdump(dict(sel=e['sel'], scope=e['scope'], delivered=norm_pairs(e['delivered']),
                          va=_norm_fnref(e['va']), kw=norm_pairs(e['kw']))) for e in want['evals']]
    ge = [core.jdump(dict(sel=e['sel'], scope=e['scope'], delivered=norm_pairs(e['delivered']),
                          va=e['va'], kw=norm_pairs(e['kw']))) for e in got['evals']]
    if want['status'] == 'ok' and we != ge:
      return ('evals', we, ge)
  return None


ALL_FIELDS = ('cfg', 'okeys', 'oper', 'stack', 'cur', 'locked', 'reg', 'nhooks', 'consts', 'interactive', 'singles', 'imports')


def compare_state(want, got, fields=ALL_FIELDS):
  for f in fields:
    w, g = want[f], got[f]
    if f == 'cfg':
      # same keys, same per-key parameter order, same values
      if {k: v for k, v in w.items()} != {k: v for k, v in g.items()}:
        return (f, {str(k): v for k, v in w.items()}, {str(k): v for k, v in g.items()})
    elif w != g:
      return (f, sorted(map(str, w)) if isinstance(w, set) else w, sorted(map(str, g)) if isinstance(g, set) else g)
  return None


HANG_SECONDS = 40


class ReplayHangs(BaseException):
  """Raised by the watchdog alarm inside a replay."""


def replay(beh, fields=ALL_FIELDS, at_end=None, salt=0):
  """Steps one exported GinCore behaviour through the real gin.
  Returns None if the code conforms, else a dict describing the first divergence."""
  # literal pools are seeded from the behaviour itself, so that a replay file reproduces exactly
  world = World(beh[0]['reg'], pool_seed=zlib.crc32(core.jdump([s['out'] for s in beh[:4]]).encode()) + core.seed() + salt)
  # a behaviour that does not come back (a lock taken twice, a wait that nobody ends) is a divergence, not a stall
  import signal
  step_box = [0]

  def _alarm(signum, frame):
    raise ReplayHangs()
  old_handler = signal.signal(signal.SIGALRM, _alarm) if hasattr(signal, 'SIGALRM') else None
  if old_handler is not None or hasattr(signal, 'SIGALRM'):
    signal.alarm(HANG_SECONDS)
  world.reserved = set(dotted(st['out']['conf']['sel']) for st in beh[1:] if st['out'].get('op') == 'Register')
  try:
    bad = {k: v for k, v in world.reg_status.items() if v != 'ok'}
    if bad:
      return dict(step=0, action='Init', clause='out.registration', expected='ok', got=bad, args={})
    for i, st in enumerate(beh):
      o = st['out']
      step_box[0] = i
      if i > 0:
        try:
          got = world.apply(o)
        except AdapterError:
          raise
        d = compare_out(o, got)
        if d:
          return dict(step=i, action=o['op'], clause='out.' + d[0], expected=d[1], got=d[2], args=_args(o))
      d = compare_state(spec_projection(st), world.project(), fields)
      if d:
        return dict(step=i, action=o['op'], clause='state.' + d[0], expected=d[1], got=d[2], args=_args(o))
    if at_end is not None:
      return at_end(world, beh)
    return None
  except ReplayHangs:
    return dict(step=step_box[0], action=beh[step_box[0]]['out'].get('op') if step_box[0] < len(beh) else '?', clause='hangs',
                expected='returns', got='no return within %d s' % HANG_SECONDS, args={})
  finally:
    if hasattr(signal, 'SIGALRM'):
      signal.alarm(0)
      signal.signal(signal.SIGALRM, old_handler or signal.SIG_DFL)
    world.close()


def representable(v):
  """_is_literally_representable on specification values."""
  t = v[0]
  if t in ('lit', 'ref'):
    return True
  if t in ('list', 'tuple'):
    return all(representable(x) for x in v[1])
  if t == 'dict':
    return all(representable(k) and representable(x) for k, x in v[1])
  return False


def _args(o):
  return {k: v for k, v in o.items() if k not in ('delivered', 'evals', 'va', 'kw', 'missing', 'ran', 'status', 'why')}


def actions_of(beh):
  return [_args(s['out']) for s in beh[1:]]
