"""bin/selftest: shows that the conformance steps really constrain the code.

For every trace-validation module a batch of traces recorded from the unchanged real code is validated twice: as
recorded (all must be accepted) and with one recorded field corrupted in each (all must be rejected, at the corrupted
event).  For behaviour replay one step of TLC-exported behaviours is altered (all must diverge).  Exit 0 iff every
demonstration behaves as stated."""
import copy
import json
import random
import sys

from ginverif import adapter_core, adapter_selmap, drivers_core, tlc

FAIL = []


def expect(name, cond, detail=''):
  print('%-62s %s %s' % (name, 'ok' if cond else 'FAILED', detail))
  if not cond:
    FAIL.append(name)


def selector_map():
  rng = random.Random(1)
  traces = [adapter_selmap.random_trace(rng, 10) for _ in range(30)]
  traces = [t for t in traces if any(e['obs'].get('h1', {}).get('items') for e in t)]
  good, _ = tlc.validate_traces('SelectorMap_Trace', 'SelectorMap_Trace.cfg', traces)
  expect('SelectorMap: recorded traces accepted', all(ok for ok, _ in good), '%d traces' % len(traces))
  bad, where = [], []
  for t in copy.deepcopy(traces):
    for j, e in enumerate(t):
      items = e['obs'].get('h1', {}).get('items')
      if items:
        items[0][1] = 99                      # a stored value the code never returned
        where.append(j + 1)
        break
    bad.append(t)
  res, _ = tlc.validate_traces('SelectorMap_Trace', 'SelectorMap_Trace.cfg', bad)
  expect('SelectorMap: one corrupted answer per trace -> all rejected there', all((not ok) and far == w for (ok, far), w in zip(res, where)),
         '%d traces' % len(bad))


def gin_core_traces():
  rng = random.Random(2)
  traces = [drivers_core.drive(rng, 14) for _ in range(40)]
  good, _ = tlc.validate_traces('GinCore_Trace', 'GinCore_Trace.cfg', traces)
  expect('GinCore: recorded histories accepted', all(ok for ok, _ in good), '%d histories' % len(traces))
  bad, where = [], []
  for t in copy.deepcopy(traces):
    hit = None
    for j, e in enumerate(t['events']):
      if e['op'] == 'Call' and e['status'] == 'ok' and e['delivered']:
        e['delivered'][0][1] = ['lit', 'CORRUPT']
        hit = j + 1
        break
    if hit is None:
      for j, e in enumerate(t['events']):
        if e['op'] == 'Bind' and e['status'] == 'ok':
          e['status'] = 'ValueError'
          hit = j + 1
          break
    if hit:
      bad.append(t)
      where.append(hit)
  res, _ = tlc.validate_traces('GinCore_Trace', 'GinCore_Trace.cfg', bad)
  expect('GinCore: one corrupted field per history -> all rejected there', all((not ok) and far == w for (ok, far), w in zip(res, where)),
         '%d histories' % len(bad))


def behaviour_replay():
  behs, _ = tlc.export_behaviours('GinCore_Sim', 'GinCore_Sim_inject.cfg', num=60, depth=12, seed=3)
  expect('GinCore: exported behaviours conform', all(adapter_core.replay(b) is None for b in behs), '%d behaviours' % len(behs))
  n = d = 0
  for b in copy.deepcopy(behs):
    for st in b[1:]:
      o = st['out']
      if o['op'] == 'Call' and o['status'] == 'ok' and o['delivered']:
        o['delivered'][0][1] = ['lit', 'CORRUPT']      # the specification now "expects" something the code will not do
        n += 1
        d += adapter_core.replay(b) is not None
        break
  expect('GinCore: behaviours with one altered expectation -> all diverge', n > 0 and n == d, '%d of %d' % (d, n))


def main():
  selector_map()
  gin_core_traces()
  behaviour_replay()
  print('selftest: %s' % ('all demonstrations behaved as stated' if not FAIL else 'FAILED: %s' % FAIL))
  return 1 if FAIL else 0


if __name__ == '__main__':
  sys.exit(main())
