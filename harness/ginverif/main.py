"""bin/check entry point: dispatches to ginverif.checks.<id>."""
import argparse
import importlib
import os
import sys
import traceback

from ginverif import tlc


def main():
  ap = argparse.ArgumentParser()
  ap.add_argument('prop')
  ap.add_argument('--tier', default=os.environ.get('VERIF_TIER', 'quick'), choices=['quick', 'thorough'])
  ap.add_argument('--replay', default=None)
  a = ap.parse_args()
  try:
    mod = importlib.import_module('ginverif.checks.' + a.prop.lower())
  except ImportError:
    traceback.print_exc()
    print('no check for %s' % a.prop)
    return 2
  try:
    if a.replay:
      return mod.replay(a.replay)
    return mod.run(a.tier)
  except tlc.TLCError as e:
    print('MACHINERY FAILURE (TLC): %s' % e)
    return 2
  except Exception:  # pylint: disable=broad-except
    traceback.print_exc()
    print('MACHINERY FAILURE')
    return 2


if __name__ == '__main__':
  sys.exit(main())
