"""Adapter between GinDynReg.tla and gin's dynamic registration: a real package tree on disk per case."""
import importlib
import os
import shutil
import sys
import tempfile

from ginverif import core

_N = [0]

MOD_SRC = '''
import functools

def fn(x=0, y=0):
  return ('fn', x, y)

def _traced(f):
  @functools.wraps(f)
  def wrapper(*args, **kwargs):
    return ('traced',) + tuple(f(*args, **kwargs))
  return wrapper

traced_fn = _traced(fn)        # another object, whose __wrapped__ chain reaches fn

class Cls:
  def __init__(self, x=0):
    self.x = x
  def meth(self, x=0):
    return x
  class Inner:
    def __init__(self, x=0):
      self.x = x
    def im(self, x=0):
      return x
'''
SUBMOD_SRC = '''
def fn(x=0, y=0):
  return ('fn5', x, y)
'''
SIBMOD_SRC = '''
def fn(x=0, y=0):
  return ('fn6', x, y)
'''
VEND_SRC = '''
def vfn(x=0):
  return ('vfn', x)
'''


class Case:

  def __init__(self):
    self.gin = core.import_gin()
    from gin import config
    self.config = config
    _N[0] += 1
    self.pk = 'gvdpk%d' % _N[0]
    self.vend = 'gvdvend%d' % _N[0]
    self.root = tempfile.mkdtemp(prefix='ginverif_dyn_')
    p = os.path.join(self.root, self.pk)
    os.makedirs(os.path.join(p, 'sub'))
    os.makedirs(os.path.join(p, 'sib'))
    open(os.path.join(p, '__init__.py'), 'w').close()
    open(os.path.join(p, 'sub', '__init__.py'), 'w').close()
    open(os.path.join(p, 'sib', '__init__.py'), 'w').close()
    with open(os.path.join(p, 'sib', 'mod.py'), 'w') as fh:       # a sibling package with a module of the same leaf name
      fh.write(SIBMOD_SRC)
    with open(os.path.join(p, 'mod.py'), 'w') as fh:
      fh.write(MOD_SRC)
    with open(os.path.join(p, 'sub', 'mod.py'), 'w') as fh:
      fh.write(SUBMOD_SRC)
    with open(os.path.join(p, 'alias.py'), 'w') as fh:
      fh.write('from %s.mod import fn\n' % self.pk)
    v = os.path.join(self.root, self.vend)
    os.makedirs(v)
    open(os.path.join(v, '__init__.py'), 'w').close()
    with open(os.path.join(v, self.pk + '.py'), 'w') as fh:     # a module whose *name* collides with the package
      fh.write(VEND_SRC)
    sys.path.insert(0, self.root)
    importlib.invalidate_caches()
    self._before = dict(config._REGISTRY.items())
    self._inv_before = dict(config._INVERSE_REGISTRY)
    self.gin.clear_config()

  def close(self):
    config = self.config
    self.gin.clear_config()
    core.restore_registry(config, self._before, self._inv_before)
    for m in [m for m in sys.modules if m == self.pk or m.startswith(self.pk + '.') or m == self.vend or m.startswith(self.vend + '.')]:
      del sys.modules[m]
    if self.root in sys.path:
      sys.path.remove(self.root)
    shutil.rmtree(self.root, ignore_errors=True)

  def name(self, comp):
    return self.pk if comp == 'pk' else comp

  def text(self, doc):
    lines = ['from __gin__ import dynamic_registration']
    for s in doc:
      if s['t'] == 'enable':
        lines.append('from __gin__ import dynamic_registration')
      elif s['t'] == 'import':
        mod = [self.name(c) for c in s['module']]
        if s['form'] in ('plain', 'as'):
          lines.append('import ' + '.'.join(mod) + (' as ' + self.name(s['alias']) if s['alias'] else ''))
        else:
          lines.append('from %s import %s' % ('.'.join(mod[:-1]), mod[-1]) + (' as ' + self.name(s['alias']) if s['alias'] else ''))
      else:
        sel = (s.get('scope', '') + '/' if s.get('scope') else '') + '.'.join(self.name(c) for c in s['sel'])
        val = repr(s['val']) if not s['ref'] else ('@' + (s.get('rscope', '') + '/' if s.get('rscope') else '') +
                                                   '.'.join(self.name(c) for c in s['ref']) + '()')
        lines.append('%s.%s = %s' % (sel, s['param'], val))
    return '\n'.join(lines) + '\n'

  def objects(self):
    """node id -> real object, for the modules that are loaded."""
    out = {}
    m = sys.modules.get(self.pk + '.mod')
    if m is not None:
      out.update(fn=m.fn, Cls=m.Cls, meth=m.Cls.meth, Inner=m.Cls.Inner, im=m.Cls.Inner.im, tfn=m.traced_fn)
    m5 = sys.modules.get(self.pk + '.sub.mod')
    if m5 is not None:
      out['fn5'] = m5.fn
    m6 = sys.modules.get(self.pk + '.sib.mod')
    if m6 is not None:
      out['fn6'] = m6.fn
    return out

  SCOPES = ('', 'sc')

  def bindings(self):
    """What is configured, per (scope, object): [scope, object, parameter, value, referenced object, scope on the reference]."""
    gin, config = self.gin, self.config
    objs = self.objects()
    got = []
    for scope in self.SCOPES:
      for oid, obj in objs.items():
        try:
          with gin.config_scope(scope or None):
            b = gin.get_bindings(obj, resolve_references=False, inherit_scopes=False)
        except ValueError:
          continue
        for p, v in b.items():
          if isinstance(v, config.ConfigurableReference):
            target = [k for k, o in objs.items() if o is v.configurable.wrapped]
            got.append([scope, oid, p, '@', target[0] if target else '?', '/'.join(v.scopes)])
          elif isinstance(v, config._UnknownConfigurableReference):
            got.append([scope, oid, p, 'unk', 'none', ''])
          else:
            got.append([scope, oid, p, v, 'none', ''])
    return sorted(got)

  def behaviour(self):
    """Observable behaviour through references: fn's y is an instance of the referenced class, built under the scope
    written on the reference, whose methods are configured as bound."""
    gin = self.gin
    objs = self.objects()
    out = {}
    if 'fn' in objs:
      try:
        r = gin.get_configurable(objs['fn'])()
        out['fn.x'] = r[1]
        y = r[2]
        if hasattr(y, 'x') and not isinstance(y, (int, str)):
          out['fn.y.x'] = y.x
          out['fn.y class'] = 'Inner' if isinstance(y, objs['Inner']) else ('Cls' if isinstance(y, objs['Cls']) else type(y).__name__)
          out['fn.y.method()'] = y.im() if isinstance(y, objs['Inner']) else y.meth()
      except ValueError:
        pass
    return out

  def run(self, case):
    gin = self.gin
    obs = {}
    sk = case.get('skip') or dict(mode='false', names=[])
    skip = {'false': False, 'true': True}.get(sk['mode'])
    if skip is None:
      skip = ['.'.join(self.name(c) for c in n) for n in sk['names']]
    if case.get('prev'):
      # an earlier file of the same process: what it registered, bound and imported stays behind
      gin.parse_config(self.text(case['prev']))
    try:
      gin.parse_config(self.text(case['doc']), skip_unknown=skip)
      obs['status'] = 'ok'
    except BaseException as e:  # pylint: disable=broad-except
      obs['status'] = ('ImportError' if isinstance(e, ImportError) else type(e).__name__)
      obs['msg'] = str(e)[:300]
      obs['fullmsg'] = str(e)
    obs['cfg'] = self.bindings()
    return obs


def expected_behaviour(cfg):
  """cfg: [scope, object, parameter, value, referenced object, scope on the reference] (root-scope view of fn)."""
  d = {(sc, o, p): (v, ref, rsc) for sc, o, p, v, ref, rsc in cfg}
  out = {}
  if any(o == 'fn' and sc == '' for sc, o, _, _, _, _ in cfg):
    out['fn.x'] = d.get(('', 'fn', 'x'), (0,))[0]
    y = d.get(('', 'fn', 'y'))
    if y and y[0] == '@' and y[1] in ('Cls', 'Inner'):
      cls, rsc = y[1], y[2]
      # the instance is built under the scope written on the reference: that scope's binding overlays the root's
      x = d.get((rsc, cls, 'x')) if rsc else None
      out['fn.y.x'] = (x or d.get(('', cls, 'x'), (0,)))[0]
      out['fn.y class'] = cls
      # the method is called by the harness outside any scope
      out['fn.y.method()'] = d.get(('', 'im' if cls == 'Inner' else 'meth', 'x'), (0,))[0]
  return out


def check(case):
  """Returns None or (clause, expected, got)."""
  c = Case()
  try:
    obs = c.run(case)
    if obs['status'] != case['status']:
      return ('status', case['status'], obs['status'] + ': ' + obs.get('msg', ''))
    if case['status'] not in ('ok', 'SyntaxError') and case.get('at'):
      # the error says where: statement k of the file sits on line k + 1 (after the enabling line)
      import re
      where = [int(n) for n in re.findall(r'line (\d+)', obs.get('fullmsg', ''))]
      if where != [case['at'] + 1]:
        return ('error-location', [case['at'] + 1], [where, obs.get('fullmsg', '')[:300]])
    want = sorted([b.get('scope', ''), b['obj'], b['param'], b['val'], b.get('ref', 'none'), b.get('rscope', '')] for b in case['cfg'])
    if want != obs['cfg']:
      return ('configured-objects', want, obs['cfg'])
    if case['status'] != 'ok' or any(b[3] == 'unk' for b in want):
      return None
    # references keep working (also after a class was re-registered because one of its methods was configured)
    wb = expected_behaviour(want)
    gb = c.behaviour()
    if any(gb.get(k) != v for k, v in wb.items()):
      return ('references-deliver-configured-objects', wb, gb)
    # a second file whose import binds the same name to another module; then the config string must re-alias
    gin = c.gin
    try:
      gin.parse_config('from __gin__ import dynamic_registration\nfrom %s import %s\n%s.vfn.x = 9\n' % (c.vend, c.pk, c.pk))
    except Exception as e:  # pylint: disable=broad-except
      return ('second-file', 'parses', '%s: %s' % (type(e).__name__, e))
    vfn = sys.modules[c.vend + '.' + c.pk].vfn
    before = c.bindings() + [['', 'vfn', 'x', gin.get_bindings(vfn)['x'], 'none', '']]
    try:
      text = gin.config_str()
    except Exception as e:  # pylint: disable=broad-except
      return ('config-str-returns', 'a string', '%s: %s' % (type(e).__name__, str(e)[:300]))
    gin.clear_config()
    try:
      gin.parse_config(text)
    except Exception as e:  # pylint: disable=broad-except
      return ('config-str-reparses', 'parses', '%s: %s\n%s' % (type(e).__name__, str(e)[:300], text))
    try:
      after = c.bindings() + [['', 'vfn', 'x', gin.get_bindings(vfn).get('x'), 'none', '']]
    except ValueError as e:
      after = 'RAISED %s' % e
    if before != after:
      return ('config-str-resolves-to-same-objects', before, [after, text])
    try:
      again = gin.config_str()
    except Exception as e:  # pylint: disable=broad-except
      return ('config-str-returns', 'a string', '%s: %s' % (type(e).__name__, str(e)[:300]))
    if again != text:
      return ('config-str-idempotent', text, again)
    return None
  finally:
    c.close()
