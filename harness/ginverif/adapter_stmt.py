"""Adapter between GinStmt.tla (statement-level token kinds) and the real ConfigParser / tokenizer."""
import ast
import io
import random
import tokenize

from ginverif import adapter_syntax as S
from ginverif import core

NAME_OF = {'a': 'alpha', 'b': 'beta', 'c': 'gamma'}
KEYWORDS = ('import', 'from', 'as', 'include')
ABS_OF = {v: k for k, v in NAME_OF.items()}


def render(toks, rng, final_newline=None):
  """Config text for a GinStmt token sequence (layout details chosen by rng)."""
  out = []
  line_has_tokens = False
  depth = 0
  indent = ''
  i = 0
  n = len(toks)

  def emit(s):
    nonlocal line_has_tokens
    if not line_has_tokens:
      out.append(indent)
    out.append(s)
    line_has_tokens = True

  while i < n:
    t = toks[i]
    if t == 'nl':
      if depth > 0:
        out.append(rng.choice(['\n', '\n   ', '  \n\t']))     # exactly one NL token
        line_has_tokens = True       # continuation lines of a bracket need no indentation care
      elif line_has_tokens:
        out.append(rng.choice(['  # trailing', '# t', ' #']))      # a COMMENT before NEWLINE
      else:
        # at the start of a line: two nl = a comment line (COMMENT, NL); one = a blank line (NL)
        if i + 1 < n and toks[i + 1] == 'nl':
          out.append(rng.choice(['', '  ', '        ']) + '# comment line\n')
          i += 1
        else:
          out.append(rng.choice(['\n', '   \n']))
    elif t == 'NEWLINE':
      if i == n - 1 or all(x == 'DEDENT' for x in toks[i + 1:]):
        fin = final_newline if final_newline is not None else rng.random() < 0.7
        out.append('\n' if fin else '')
      else:
        out.append('\n')
      line_has_tokens = False
    elif t == 'INDENT':
      indent = rng.choice(['  ', '    ', '\t', ' '])
    elif t == 'DEDENT':
      indent = ''
    else:
      spaced = t.endswith('_') and len(t) > 1
      base = t[:-1] if spaced else t
      if base in NAME_OF:
        lex = NAME_OF[base]
      elif base in KEYWORDS:
        lex = base
      elif base == 'n':
        lex = rng.choice(S.NUMS)
      elif base == 's':
        lex = rng.choice(S.STRS).strip()
      elif base == '=':
        lex = rng.choice([' = ', '=', ' =', '= ', ' = \\\n      '])
      elif base == ':' and depth == 0:
        lex = rng.choice([':', ' :', ': '])
      else:
        lex = base
      prev = toks[i - 1] if i else None
      prevbase = prev[:-1] if prev and prev.endswith('_') and len(prev) > 1 else prev
      if spaced:
        lex = rng.choice([' ', '  ', '\t']) + lex
      elif prevbase is not None and line_has_tokens and _alnum(prevbase) and _alnum(base):
        lex = ' ' + lex            # e.g. `import alpha`, `from alpha import beta as gamma`, `include 'f'`
      depth += base in '[({'
      depth -= base in '])}'
      emit(lex)
    i += 1
  return ''.join(out)


def _alnum(t):
  return t in NAME_OF or t in KEYWORDS or t in ('n', 's')


def abstract(text):
  """CPython token stream of a config text -> GinStmt token kinds."""
  kinds = []
  depth = 0
  prev = None
  names = {}
  try:
    for tok in tokenize.generate_tokens(io.StringIO(text).readline):
      tt, s = tok.type, tok.string
      if tt == tokenize.ENDMARKER:
        break
      if tt in (tokenize.NL, tokenize.COMMENT):
        kinds.append('nl')
        continue
      if tt == tokenize.NEWLINE:
        kinds.append('NEWLINE')
        prev = None
        continue
      if tt == tokenize.INDENT:
        kinds.append('INDENT')
        continue
      if tt == tokenize.DEDENT:
        kinds.append('DEDENT')
        continue
      gap = prev is not None and prev.end[0] == tok.start[0] and prev.end[1] != tok.start[1]
      gap = gap or (prev is not None and prev.end[0] != tok.start[0])      # backslash continuation
      if tt == tokenize.NAME:
        if prev is not None and prev.string in ('@', '%') and not gap:
          k = 'x'                      # the NAME of a reference / macro in a value
        elif s in KEYWORDS:
          k = s
        elif s in ABS_OF:
          k = ABS_OF[s]
        elif s in ('True', 'False', 'None'):
          k = 'k'
        else:
          k = names.setdefault(s, 'abc'[len(names) % 3])
        if gap and prev.string in ('/', '.') and depth == 0:
          k += '_'
      elif tt == tokenize.NUMBER:
        k = 'n'
        try:
          ast.literal_eval(s)
        except Exception:  # pylint: disable=broad-except
          k = '?'
      elif tt == tokenize.STRING:
        try:
          v = ast.literal_eval(s)
          k = 'y' if isinstance(v, bytes) else ('e' if v == '' else 's')
        except Exception:  # pylint: disable=broad-except
          k = '?'
      elif tt == tokenize.OP:
        k = s
        if s in ('/', '.') and gap and depth == 0 and prev.type == tokenize.NAME:
          k += '_'
        depth += s in '[({'
        depth -= s in '])}'
      else:
        k = '?'
      kinds.append(k)
      prev = tok
  except (tokenize.TokenError, SyntaxError, IndentationError):
    kinds.append('?')
  return kinds


def _seq(dotted_or_scoped):
  """'alpha/beta.gamma' -> ['a', '/', 'b', '.', 'c'] (separators kept, as in the specification)."""
  out, cur = [], ''
  for ch in dotted_or_scoped:
    if ch in '/.':
      if cur:
        out.append(ABS_OF.get(cur, cur))
      out.append(ch)
      cur = ''
    else:
      cur += ch
  if cur:
    out.append(ABS_OF.get(cur, cur))
  return out


def real_statements(text, rename=None):
  """The statement stream the real ConfigParser produces, in the specification's vocabulary;
  [{'t': 'err'}] when it raises a syntax / tokenizer error."""
  core.import_gin()
  from gin import config_parser
  _, config = S.setup()

  class D(config_parser.ParserDelegate):

    def configurable_reference(self, scoped_name, evaluate):
      return ('@', scoped_name, bool(evaluate))

    def macro(self, name):
      return ('%', name)

  def sq(s):
    r = _seq(s)
    if rename:
      r = [rename.get(x, x) for x in r]
    return r

  out = []
  try:
    for st in config_parser.ConfigParser(text, D()):
      if isinstance(st, config_parser.BindingStatement):
        out.append(dict(t='bind', scope=sq(st.scope), selector=sq(st.selector), arg=sq(st.arg_name),
                        val=_shape(st.value)))
      elif isinstance(st, config_parser.ImportStatement):
        out.append(dict(t='import', module=sq(st.module), isfrom=bool(st.is_from), alias=[rename.get(st.alias, ABS_OF.get(st.alias, st.alias)) if rename else ABS_OF.get(st.alias, st.alias)] if st.alias else []))
      elif isinstance(st, config_parser.IncludeStatement):
        out.append(dict(t='include'))
      else:
        out.append(dict(t='block', scope=sq(st.scope), selector=sq(st.selector)))
  except (SyntaxError, tokenize.TokenError):
    return [dict(t='err')]
  return out


def _shape(v):
  if isinstance(v, tuple) and len(v) == 3 and v[0] == '@':
    return ['ref', v[2]]
  if isinstance(v, tuple) and len(v) == 2 and v[0] == '%':
    return ['macro']
  if isinstance(v, bool) or v is None:
    return ['const']
  if isinstance(v, (int, float, complex)):
    return ['numlike']
  if isinstance(v, str):
    return ['str']
  if isinstance(v, bytes):
    return ['bytes']
  if isinstance(v, list):
    return ['list', [_shape(x) for x in v]]
  if isinstance(v, tuple):
    return ['tuple', [_shape(x) for x in v]]
  if isinstance(v, dict):
    return ['dict-n', len(v)]
  return ['other']


def spec_statements(expected):
  """Specification statement records (JSON) -> comparison form."""
  out = []
  for s in expected:
    if s['t'] == 'bind':
      out.append(dict(t='bind', scope=list(s['scope']), selector=list(s['selector']), arg=list(s['arg']),
                      val=S.spec_shape(s['val'])))
    elif s['t'] == 'block':
      out.append(dict(t='block', scope=list(s['scope']), selector=list(s['selector'])))
    elif s['t'] == 'import':
      out.append(dict(t='import', module=list(s['module']), isfrom=bool(s['isfrom']), alias=list(s['alias'])))
    else:
      out.append(dict(t=s['t']))
  return out


# ---------------------------------------------------------------------------
# probes for the "two layouts, same configuration" clause

_PROBES = {}


def setup_probes():
  gin, config = S.setup()
  if not _PROBES:
    def mk(name, module, params):
      ns = {}
      exec('def %s(%s):\n  return None\n' % (name, ', '.join(p + '=None' for p in params)), ns)  # pylint: disable=exec-used
      fn = ns[name]
      fn.__module__ = module
      _PROBES[(module, name)] = gin.external_configurable(fn, name=name, module=module)
    mk('alpha', 'gvstmt.gamma', ['beta'])           # reached as `alpha` and as `gamma.alpha`
    mk('gamma', 'gvstmt.beta', ['alpha', 'beta'])   # reached as `gamma` and as `beta.gamma`
  return gin, config


# ---------------------------------------------------------------------------
# code -> spec: random documents with richer layouts

IDENTS = ['alpha', 'beta', 'gamma']


def gen_doc(rng):
  """A random config text built from statements; returns text."""
  lines = []
  for _ in range(rng.randint(1, 5)):
    r = rng.random()
    pre = rng.choice(['', '', '\n', '# note\n', '\n# a\n\n'])
    trail = rng.choice(['', '', '  # t'])
    val = S.gen_value(rng, rng.choice([0, 1, 2])).replace(S.REF_NAME, 'alpha').replace(S.MACRO_NAME, 'beta')
    if r < 0.4:
      scope = '/'.join(rng.choice(IDENTS) for _ in range(rng.choice([0, 0, 1, 2, 3])))
      sel = '.'.join(rng.choice(IDENTS) for _ in range(rng.choice([1, 2, 3])))
      key = (scope + '/' if scope else '') + sel + ('.' + rng.choice(IDENTS) if rng.random() < 0.85 else '')
      eq = rng.choice([' = ', '=', ' = \\\n    ', '  =  '])
      lines.append(pre + key + eq + val + trail + '\n')
    elif r < 0.65:
      scope = '/'.join(rng.choice(IDENTS) for _ in range(rng.choice([0, 1, 2])))
      sel = '.'.join(rng.choice(IDENTS) for _ in range(rng.choice([1, 2])))
      ind = rng.choice(['  ', '    ', '\t'])
      members = ''
      for _ in range(rng.randint(1, 3)):
        members += rng.choice(['', '', ind + '# inner\n', '\n']) + ind + rng.choice(IDENTS) + rng.choice([' = ', '=']) \
            + S.gen_value(rng, rng.choice([0, 1])).replace(S.REF_NAME, 'alpha').replace(S.MACRO_NAME, 'beta') + trail + '\n'
      lines.append(pre + (scope + '/' if scope else '') + sel + ':' + rng.choice(['', '  # hdr']) + '\n' + members)
    elif r < 0.8:
      mod = '.'.join(rng.choice(IDENTS) for _ in range(rng.choice([1, 2, 3])))
      alias = ' as ' + rng.choice(IDENTS) if rng.random() < 0.4 else ''
      if rng.random() < 0.5:
        lines.append(pre + 'import ' + mod + alias + trail + '\n')
      else:
        lines.append(pre + 'from ' + mod + ' import ' + rng.choice(IDENTS) + alias + trail + '\n')
    elif r < 0.88:
      lines.append(pre + 'include ' + rng.choice(["'f.gin'", '"dir/g.gin"']) + trail + '\n')
    else:
      lines.append(pre + rng.choice([
          'alpha /beta.gamma = 1\n', 'alpha/ beta.gamma = 1\n', 'alpha. beta = 1\n', 'alpha .beta = 1\n', 'alpha//beta.gamma = 1\n',
          'alpha/.beta = 1\n', '/alpha.beta = 1\n', 'alpha/beta. = 1\n', 'alpha.beta/gamma = 1\n', 'alpha.beta =\n',
          'alpha.beta 1\n', 'import alpha/beta\n', 'from alpha as beta\n', 'include 5\n', 'alpha:\nbeta = 1\n',
          'gamma:\n  alpha/beta = 1\n', 'alpha.beta = 1 2\n', 'alpha.beta = [1\n', 'import alpha as\n', 'alpha.beta: 1\n',
          'gamma:\n    alpha = 1\n  beta = 2\n', 'gamma:\n  alpha = 1\n    beta = 2\n', 'alpha.beta == 1\n']))
  text = ''.join(lines)
  if rng.random() < 0.3 and text.endswith('\n'):
    text = text[:-1]
  return text
