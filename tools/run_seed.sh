#!/bin/bash
# usage: run_seed.sh <seeded dir name> <Cxx> [tier]  -- applies a seeded change to /repo, runs the check, reverts
d=/verif/seeded/$1; prop=$2; tier=${3:-quick}
cd /repo || exit 2
git diff --quiet || { echo "/repo has local changes; refusing"; exit 2; }
git apply $d/patch.diff || { echo "patch does not apply"; exit 2; }
trap 'git -C /repo checkout -q -- .' EXIT
cd /verif && bin/check $prop --tier $tier > /tmp/run_seed_$1_$prop.log 2>&1; rc=$?
nv=$(grep -c '^VIOLATION' /tmp/run_seed_$1_$prop.log)
echo "$1 vs $prop($tier): exit=$rc violations=$nv  $(grep -m1 -A1 '^VIOLATION' /tmp/run_seed_$1_$prop.log | tail -1 | cut -c1-200)"
exit $rc
