#!/bin/bash
# usage: run_seed.sh <seeded dir name> <Cxx> [tier]
# Applies a seeded change to a scratch worktree of /repo (never to /repo itself), points the check at it
# through GIN_REPO, and removes the worktree afterwards.
here="$(cd "$(dirname "$0")/.." && pwd)"; d=$here/seeded/$1; prop=$2; tier=${3:-quick}
wt=/tmp/seedrun_$1_$$
git -C /repo worktree add -q --detach $wt HEAD || exit 2
trap 'git -C /repo worktree remove --force '$wt' 2>/dev/null' EXIT
( cd $wt && git apply $d/patch.diff ) || { echo "$1: patch does not apply"; exit 2; }
cd $here && GIN_REPO=$wt bin/check $prop --tier $tier > /tmp/run_seed_$1_$prop.log 2>&1; rc=$?
nv=$(grep -c '^VIOLATION' /tmp/run_seed_$1_$prop.log)
echo "$1 vs $prop($tier): exit=$rc violations=$nv  $(grep -m1 -A1 '^VIOLATION' /tmp/run_seed_$1_$prop.log | tail -1 | cut -c1-200)"
exit $rc
