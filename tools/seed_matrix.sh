#!/bin/bash
# Runs, for every seeded change, the quick check of the property it was written against (in a scratch worktree of /repo,
# never in /repo itself) and prints one line per seed.  usage: seed_matrix.sh [seed dir names...]
cd "$(dirname "$0")/.."
seeds=${@:-$(ls seeded)}
for s in $seeds; do
  prop=${s%%_*}
  timeout 1500 tools/run_seed.sh $s $prop 2>&1 | tail -1
done
