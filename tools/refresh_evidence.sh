#!/bin/bash
# Re-runs every claimed check (quick tier) so that the committed evidence describes the committed tree.
cd /verif
ids=$(python3 -c "import json; print(' '.join(c['property_id'] for c in json.load(open('MANIFEST.json'))['checks']))")
for id in ${@:-$ids}; do
  s=$(date +%s)
  timeout 900 bin/check $id --tier quick > /tmp/refresh_$id.log 2>&1; rc=$?
  echo "$id exit=$rc $(( $(date +%s) - s ))s $(grep -c '^VIOLATION' /tmp/refresh_$id.log) violations"
done
