#!/bin/bash
# Runs every claimed check in the thorough tier once; one line per check.
cd "$(dirname "$0")/.."
ids=${@:-$(python3 -c "import json; print(' '.join(c['property_id'] for c in json.load(open('MANIFEST.json'))['checks']))")}
for id in $ids; do
  st=$(date +%s)
  out=$(timeout ${THOROUGH_TIMEOUT:-3000} bin/check $id --tier thorough 2>&1); rc=$?
  echo "$id exit=$rc $(( $(date +%s) - st ))s $(echo "$out" | grep -c '^VIOLATION') violations | $(echo "$out" | grep -v conda | tail -1 | cut -c1-220)"
done
