#!/bin/bash
# usage: verify_seed.sh <Cxx> <A|B|C|D> [round: "" or 2]   -- confirms a sub-agent's seeded change in its scratch worktree
# and stores it under /verif/seeded/<Cxx>_<v>/ (patch.diff, demo.py, meta.json).
id=$1; v=$2; R=${3:-}
wt=/tmp/seed${R}_$id; out=/tmp/seedout${R}_$id
patch=$out/patch_$v.diff; demo=$out/demo_$v.py
[ -f "$patch" ] && [ -f "$demo" ] || { echo "missing files for $id $v"; exit 2; }
cd $wt || exit 2
git checkout -q -- . 
( cd $wt && /venv/bin/python $demo >/dev/null 2>&1 ); orig=$?
git apply $patch || { echo "patch does not apply"; exit 2; }
( cd $wt && /venv/bin/python $demo >/tmp/seed_demo_$id$v.log 2>&1 ); mut=$?
tests=$(cd $wt && /venv/bin/python -m pytest -q -p no:cacheprovider --timeout=900 --continue-on-collection-errors tests/config_test.py tests/config_parser_test.py tests/selector_map_test.py tests/resource_reader_test.py 2>&1 | tail -1)
failed=$(cd $wt && /venv/bin/python -m pytest -q -p no:cacheprovider --timeout=900 tests/config_test.py tests/config_parser_test.py tests/selector_map_test.py tests/resource_reader_test.py 2>&1 | grep ^FAILED | sed 's/ - .*//' | sort | tr '\n' ' ')
git checkout -q -- .
echo "$id $v: demo_on_original=$orig demo_with_patch=$mut tests: $tests"
echo "   failed: $failed"
base="FAILED tests/config_test.py::ConfigTest::testConfigStrDynamicRegistration FAILED tests/config_test.py::ConfigTest::testConfigStrDynamicRegistrationIsIdempotent FAILED tests/config_test.py::ConfigTest::testDynamicRegistrationImportMain FAILED tests/config_test.py::ConfigTest::testDynamicRegistrationImportMainAndRegister FAILED tests/config_test.py::ConfigTest::testDynamicallyRegisteredClassWithMethods FAILED tests/config_test.py::ConfigTest::testInteractiveMode "
if [ $orig -eq 0 ] && [ $mut -ne 0 ] && [ "$failed" == "$base" ]; then
  d=/verif/seeded/${id}_$v; mkdir -p $d
  cp $patch $d/patch.diff; cp $demo $d/demo.py
  python3 - "$id" "$v" "$out/notes.json" "$d/meta.json" "$tests" <<'PY'
import json,sys
id,v,notes,dst,tests=sys.argv[1:6]
try: n=json.load(open(notes)).get(v,{})
except Exception: n={}
json.dump(dict(property=id, variant=v, summary=n.get('summary'), needs=n.get('needs'),
  confirmed=dict(demo_exit_on_original=0, demo_fails_with_patch=True, pinned_tests_with_patch=tests,
  baseline_failures_unchanged=True, how="tools/verify_seed.sh in a scratch worktree"), detected_by=None), open(dst,'w'), indent=1)
PY
  echo "   KEPT -> $d"
else
  echo "   REJECTED"
fi
