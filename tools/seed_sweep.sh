#!/bin/bash
# Runs every claimed check (quick) under several seeds; prints one line per (check, seed).
cd "$(dirname "$0")/.."
ids=$(python3 -c "import json; print(' '.join(c['property_id'] for c in json.load(open('MANIFEST.json'))['checks']))")
for s in ${SEEDS:-1 2 3 4}; do
  for id in $ids; do
    st=$(date +%s)
    out=$(VERIF_SEED=$s timeout 900 bin/check $id --tier quick 2>&1); rc=$?
    echo "seed=$s $id exit=$rc $(( $(date +%s) - st ))s $(echo "$out" | grep -c '^VIOLATION') violations $(echo "$out" | grep -m1 -A1 '^VIOLATION' | tail -1 | cut -c1-160)"
  done
done
