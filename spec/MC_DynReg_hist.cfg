SPECIFICATION Spec
CONSTANTS
  Attr <- Tree
  ModuleOf <- Mods
  ExtraLoads <- Extra
  SkipForms <- HistSkips
  Templates <- TplHist
  PrevDocs <- Prevs
  MaxStmts = 3
INVARIANT C19_ExactObject
INVARIANT C19_SameConfigurable
INVARIANT C19_Errors
INVARIANT C19_NothingElse
CHECK_DEADLOCK FALSE
