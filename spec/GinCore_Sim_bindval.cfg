SPECIFICATION Spec
CONSTANTS
  Confs <- ListShapes
  InitRegs <- ListRegs2
  ScopeNames = {"a", "b"}
  MaxScopeDepth = 2
  MaxStack = 3
  BindVals <- BV12
  MaxBindings = 5
  Enabled = {"Bind", "EnterScope", "ExitScope", "Call"}
  NameOrder <- Names8
  HookUniverse = {}
  BindApis <- AllApis
  FreshConfs = {}
  ConstNames = {}
  BindFilter <- AnyBind
  ConstVals = {}
  QuerySpellings = {}
  CallMaxExtra = 1
  CallExtraKw = {"z"}
  CallsWithReq = FALSE
  DevKwEval = FALSE
CONSTRAINT ExportConstraint
CHECK_DEADLOCK FALSE
