SPECIFICATION Spec
CONSTANTS
  Confs <- ListShapes
  InitRegs <- ListRegs2
  ScopeNames = {"a", "b"}
  MaxScopeDepth = 2
  MaxStack = 3
  BindVals <- BV12
  MaxBindings = 5
  Enabled = {"Bind", "EnterScope", "ExitScope", "Call"}
  NameOrder <- Names6
  HookUniverse = {}
  BindApis <- AllApis
  FreshConfs = {}
  ConstNames = {}
  CallsWithReq = FALSE
  DevKwEval = FALSE
CONSTRAINT ExportConstraint
CHECK_DEADLOCK FALSE
