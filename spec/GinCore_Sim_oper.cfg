SPECIFICATION Spec
CONSTANTS
  Confs <- OpConfs
  InitRegs <- OpRegs
  ScopeNames = {"a", "W", "s1"}
  MaxScopeDepth = 1
  MaxStack = 3
  BindVals <- OpBindVals
  MaxBindings = 5
  Enabled = {"Bind", "EnterScope", "ExitScope", "Call"}
  NameOrder <- NamesOp
  HookUniverse = {}
  BindApis = {"tuple", "text"}
  FreshConfs = {}
  BindFilter <- OpFilter
  ConstVals = {}
  QuerySpellings = {}
  ConstNames = {}
  CallMaxExtra = 0
  CallExtraKw = {}
  CallsWithReq = TRUE
  DevKwEval = FALSE
CONSTRAINT ExportConstraint
CHECK_DEADLOCK FALSE
