SPECIFICATION Spec
CONSTANTS
  Confs <- NestConfs
  InitRegs <- NestRegs
  ScopeNames = {"s1", "d1"}
  MaxScopeDepth = 1
  MaxStack = 1
  BindVals <- NestVals
  MaxBindings = 4
  Enabled = {"Bind", "Call"}
  NameOrder <- NamesClr
  HookUniverse = {}
  BindApis = {"tuple"}
  FreshConfs = {}
  BindFilter <- NestFilter
  ConstVals = {}
  QuerySpellings = {}
  ConstNames = {}
  CallMaxExtra = 0
  CallExtraKw = {}
  CallsWithReq = FALSE
  DevKwEval = FALSE
  ScenKind = "refcall"
VIEW ViewNoOutUnordered
CONSTRAINT ExportScen
CHECK_DEADLOCK FALSE
