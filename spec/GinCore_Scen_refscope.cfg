SPECIFICATION Spec
CONSTANTS
  Confs <- RefConfs
  InitRegs <- RefRegs
  ScopeNames = {"a", "b"}
  MaxScopeDepth = 2
  MaxStack = 3
  BindVals <- RefScopeVals
  MaxBindings = 1
  Enabled = {"Bind", "EnterScope", "ExitScope", "Call"}
  NameOrder <- NamesRefs
  HookUniverse = {}
  BindApis = {"tuple"}
  FreshConfs = {}
  BindFilter <- RefScopeFilter
  ConstVals = {}
  QuerySpellings = {}
  ConstNames = {}
  CallMaxExtra = 0
  CallExtraKw = {}
  CallsWithReq = FALSE
  DevKwEval = FALSE
  ScenKind = "refcall"
VIEW ViewNoOutUnordered
CONSTRAINT ExportScen
CHECK_DEADLOCK FALSE
