SPECIFICATION Spec
CONSTANTS
  Confs <- OpConfs
  InitRegs <- OpRegs
  ScopeNames = {"a", "W", "s1"}
  MaxScopeDepth = 1
  MaxStack = 2
  BindVals <- OpBindVals
  MaxBindings = 2
  Enabled = {"Bind", "EnterScope", "ExitScope", "Call"}
  NameOrder <- NamesOp
  HookUniverse = {}
  BindApis = {"tuple"}
  FreshConfs = {}
  BindFilter <- OpFilter
  ConstVals = {}
  QuerySpellings = {}
  ConstNames = {}
  CallMaxExtra = 0
  CallExtraKw = {}
  CallsWithReq = FALSE
  DevKwEval = FALSE
VIEW ViewNoOut
CONSTRAINT OperBound
INVARIANT C07_Never
PROPERTY C07_Step
PROPERTY C07_Sections
CHECK_DEADLOCK FALSE
