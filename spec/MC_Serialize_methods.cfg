SPECIFICATION Spec
CONSTANTS
  Confs <- SerConfs
  InitRegs <- SerRegsM
  ScopeNames = {"a", "W"}
  MaxScopeDepth = 1
  MaxStack = 1
  BindVals <- SerValsM
  MaxBindings = 2
  Enabled = {"Bind"}
  NameOrder <- NamesSer
  HookUniverse = {}
  BindApis = {"tuple"}
  FreshConfs = {}
  BindFilter <- SerFilter
  ConstVals = {}
  QuerySpellings = {}
  ConstNames = {}
  CallMaxExtra = 0
  CallExtraKw = {}
  CallsWithReq = FALSE
  DevKwEval = FALSE
VIEW ViewNoOutUnordered
INVARIANT C06_RoundTrip
INVARIANT C06_Omits
INVARIANT C11_StoreValid
CHECK_DEADLOCK FALSE
