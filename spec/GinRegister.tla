---------------------------- MODULE GinRegister ----------------------------
(***************************************************************************)
(* gin/config.py registration: _make_configurable (1635-1732) with its     *)
(* validation order and the point at which the registry is touched,        *)
(* method renaming when a class with registered methods is registered      *)
(* (_find_registered_methods, 456-497), interactive mode (2624-2640), and  *)
(* the observable consequences of the three registration APIs that         *)
(* property C13 states (Predict).                                           *)
(***************************************************************************)
EXTENDS Naturals, Sequences, FiniteSets, TLC

CONSTANTS Requests,   \* registration requests a behaviour may issue (records, see MC_GinRegister)
          MaxSteps

VARIABLES reg,          \* _REGISTRY: set of [sel, obj]
          locked, interactive, out, steps
vars == <<reg, locked, interactive, out, steps>>

Sels(r) == { e.sel : e \in r }
ObjAt(r, s) == (CHOOSE e \in r : e.sel = s).obj

\* the verdict of _make_configurable, in the order of the code
Verdict(q) ==
  IF locked THEN "RuntimeError"                                                 \* 1677-1679
  ELSE IF ~q.nameValid THEN "ValueError"                                        \* 1681-1686
  ELSE IF ~q.moduleValid THEN "ValueError"                                      \* 1688-1689
  ELSE IF ~interactive /\ q.sel \in Sels(reg) /\ ObjAt(reg, q.sel) # q.obj THEN "ValueError"   \* 1691-1698
  ELSE IF q.bothLists THEN "ValueError"                                         \* 1700-1702
  ELSE IF q.listNotSequence THEN "TypeError"                                    \* 1704-1708
  ELSE IF q.unknownListName THEN "ValueError"                                   \* 1710-1711
  ELSE "ok"

\* a class whose method was registered on its own before: registering the class renames the method's entry
Renamed(r, q) ==
  IF q.method = "none" THEN r
  ELSE { IF e.sel = q.method THEN [sel |-> q.sel \o "." \o q.methodName, obj |-> e.obj] ELSE e : e \in r }

Register(q) ==
  /\ steps < MaxSteps
  /\ q \in Requests
  \* the method was registered first (or the class was registered before: its method entry already carries the class name)
  /\ (q.method # "none" => (q.method \in Sels(reg) \/ (q.sel \o "." \o q.methodName) \in Sels(reg)))
  /\ LET v == Verdict(q) IN
     /\ out' = [op |-> "Register", req |-> q, status |-> v]
     /\ reg' = IF v = "ok" THEN { e \in Renamed(reg, q) : e.sel # q.sel } \cup {[sel |-> q.sel, obj |-> q.obj]} ELSE reg
  /\ steps' = steps + 1
  /\ UNCHANGED <<locked, interactive>>

SetInteractive(on) ==
  /\ steps < MaxSteps
  /\ interactive' = on
  /\ out' = [op |-> "SetInteractive", on |-> on, status |-> "ok"]
  /\ steps' = steps + 1
  /\ UNCHANGED <<reg, locked>>

\* `with gin.interactive_mode():` around a registration whose body may fail: the mode ends with the block
InteractiveBlock(q) ==
  /\ steps < MaxSteps /\ q \in Requests /\ (q.method # "none" => (q.method \in Sels(reg) \/ (q.sel \o "." \o q.methodName) \in Sels(reg)))
  /\ LET v == IF locked THEN "RuntimeError" ELSE IF ~q.nameValid \/ ~q.moduleValid \/ q.bothLists \/ q.unknownListName THEN "ValueError"
               ELSE IF q.listNotSequence THEN "TypeError" ELSE "ok" IN
     /\ out' = [op |-> "InteractiveBlock", req |-> q, status |-> v]
     /\ reg' = IF v = "ok" THEN { e \in Renamed(reg, q) : e.sel # q.sel } \cup {[sel |-> q.sel, obj |-> q.obj]} ELSE reg
  /\ interactive' = FALSE
  /\ steps' = steps + 1
  /\ UNCHANGED locked

SetLocked(l) ==
  /\ steps < MaxSteps
  /\ locked' = l
  /\ out' = [op |-> "SetLocked", on |-> l, status |-> "ok"]
  /\ steps' = steps + 1
  /\ UNCHANGED <<reg, interactive>>

Init == reg = {} /\ locked = FALSE /\ interactive = FALSE /\ out = [op |-> "none"] /\ steps = 0
Next == \/ \E q \in Requests : Register(q)
        \/ \E q \in Requests : InteractiveBlock(q)
        \/ \E b \in BOOLEAN : SetInteractive(b)
        \/ \E b \in BOOLEAN : SetLocked(b)
Spec == Init /\ [][Next]_vars

------------------------------------------------------------------------------
\* a rejected registration registers nothing
C13_Atomic == [][(out'.op \in {"Register", "InteractiveBlock"} /\ out'.status # "ok") => reg' = reg]_vars

\* an existing full name is re-registered with a different object only inside interactive mode
C13_Interactive ==
  [][(out'.op = "Register" /\ out'.status = "ok" /\ out'.req.sel \in Sels(reg) /\ ObjAt(reg, out'.req.sel) # out'.req.obj)
       => interactive]_vars

\* the mode ends when its block exits, whatever happened inside
C13_ModeEnds == [][(out'.op = "InteractiveBlock") => ~interactive']_vars

\* one entry per full name
C13_Functional == \A a, b \in reg : a.sel = b.sel => a = b

------------------------------------------------------------------------------
(* Observable consequences of a successful registration (C13): what the harness must observe on the
   real objects, as a function of the API, the kind of object and whether a scope is applied. *)
Apis == {"configurable", "external", "register"}
Kinds == {"function", "class", "class-with-registered-method"}

Predict(api, kind, scoped) ==
  [ returnsOriginal     |-> api = "register",                         \* gin.register hands back the very object it was given
    originalUntouched   |-> api \in {"register", "external"},         \* direct Python calls receive no injected values
    registryInjects     |-> TRUE,                                     \* the registry's version does (reference, selector, original object)
    keepsMetadata       |-> TRUE,                                     \* name, module, docstring (and signature for functions)
    wrapperIsSubclass   |-> kind # "function" => TRUE,
    instanceOfOriginal  |-> kind # "function" => TRUE,
    exactlyOriginalType |-> (kind = "class") \/ (kind = "class-with-registered-method" /\ api = "configurable"),
    picklesIfOriginal   |-> kind = "class" ]
=============================================================================
