SPECIFICATION Spec
CONSTANTS
  Known <- KnownSet
  Ambiguous <- Amb
  Modules = {"gvmod_ok"}
  Templates <- Tpl
  FileNames <- Files3
  MaxPerFile <- Max3
  SkipForms <- Skips
  RegLogs <- RegLogs1
  EntryForms <- Entries
  EntryBinding <- EntryB
  Readers <- Rdrs
  PresentChoices <- Presents
INVARIANT C14_C16_Flatten
INVARIANT C15_Reduced
INVARIANT C15_KnownApplied
INVARIANT C15_UnlistedStillError
INVARIANT C14_Resolve
INVARIANT C14_Entry
CHECK_DEADLOCK FALSE
