SPECIFICATION Spec
CONSTANTS
  Alphabet = {"n", "s", "{", "}", ":", ",", "-"}
  MaxLen = 6
INVARIANT C02_Agree
CHECK_DEADLOCK FALSE
