----------------------------- MODULE GinThreads -----------------------------
(***************************************************************************)
(* Threads calling configurables, reading the operative config and using   *)
(* singletons (config.py: gin_wrapper 1504-1630, operative_config_str      *)
(* 2216-2250, singleton_value 2757-2766, _ScopeManager 107-141).           *)
(*                                                                          *)
(* Each thread runs a short program of operations.  An operation is split  *)
(* at its accesses to shared state, one action per access, so that TLC     *)
(* explores every interleaving at that granularity:                        *)
(*   call:      w_lock  -> w_merge -> w_unlock -> (evaluation of a         *)
(*              singleton reference: s_lock -> s_check -> [s_construct ->  *)
(*              s_store] -> s_unlock) -> w_body                             *)
(*   read:      r_lock  -> r_iter (the whole iteration under the lock)     *)
(*              -> r_unlock                                                 *)
(*   enter / exit scope: thread-local, a single step                       *)
(* LockOper / LockSingletons switch the two locks off (controls: without   *)
(* them the properties must fail).                                          *)
(***************************************************************************)
EXTENDS Naturals, Sequences, FiniteSets, TLC

CONSTANTS Threads, Programs,     \* Programs: [Threads -> sequence of operations]
          LockOper, LockSingletons

(* an operation: [op |-> "call", conf, single]  single = "" or a singleton key used by the call
                 [op |-> "read"]   [op |-> "enter", scope]   [op |-> "exit"] *)

VARIABLES pc,        \* [Threads -> label]
          ip,        \* [Threads -> index into the thread's program]
          stacks,    \* [Threads -> thread-local scope stack]
          oper,      \* shared operative record: set of [scope, conf]
          operLock,  \* owner of _OPERATIVE_CONFIG_LOCK or "none"
          iterating, \* set of threads currently iterating the operative record
          singles,   \* shared singleton cache: set of [key, obj]
          sLock,     \* owner of the singleton lock or "none"
          ctors,     \* number of constructor runs per key: set of [key, n]
          got,       \* [Threads -> set of [key, obj]] what each thread received
          failed,    \* threads that failed because of another thread (dictionary changed size during iteration)
          reads      \* snapshots returned by reads: set of [t, snapshot, consistent]
vars == <<pc, ip, stacks, oper, operLock, iterating, singles, sLock, ctors, got, failed, reads>>

Cur(t) == Programs[t][ip[t]]
Scope(t) == stacks[t][Len(stacks[t])]
Done(t) == ip[t] > Len(Programs[t])
CtorCount(k) == IF \E c \in ctors : c.key = k THEN (CHOOSE c \in ctors : c.key = k).n ELSE 0

Init ==
  /\ pc = [t \in Threads |-> "idle"] /\ ip = [t \in Threads |-> 1]
  /\ stacks = [t \in Threads |-> << <<>> >>]
  /\ oper = {} /\ operLock = "none" /\ iterating = {} /\ singles = {} /\ sLock = "none" /\ ctors = {}
  /\ got = [t \in Threads |-> {}] /\ failed = {} /\ reads = {}

Goto(t, l) == pc' = [pc EXCEPT ![t] = l]
NextOp(t) == /\ ip' = [ip EXCEPT ![t] = @ + 1] /\ Goto(t, "idle")

Start(t) ==
  /\ pc[t] = "idle" /\ ~Done(t) /\ t \notin failed
  /\ CASE Cur(t).op = "call" -> Goto(t, "w_lock") /\ UNCHANGED <<ip, stacks>>
       [] Cur(t).op = "read" -> Goto(t, "r_lock") /\ UNCHANGED <<ip, stacks>>
       [] Cur(t).op = "enter" -> /\ stacks' = [stacks EXCEPT ![t] = Append(@, Scope(t) \o <<Cur(t).scope>>)] /\ NextOp(t)
       [] Cur(t).op = "exit" -> /\ stacks' = [stacks EXCEPT ![t] = IF Len(@) > 1 THEN SubSeq(@, 1, Len(@) - 1) ELSE @] /\ NextOp(t)
  /\ UNCHANGED <<oper, operLock, iterating, singles, sLock, ctors, got, failed, reads>>

\* gin_wrapper: `with _OPERATIVE_CONFIG_LOCK:` setdefault + update (1560-1562)
WLock(t) ==
  /\ pc[t] = "w_lock" /\ (LockOper => operLock = "none")
  /\ operLock' = IF LockOper THEN t ELSE operLock
  /\ Goto(t, "w_merge") /\ UNCHANGED <<ip, stacks, oper, iterating, singles, sLock, ctors, got, failed, reads>>
WMerge(t) ==
  /\ pc[t] = "w_merge"
  /\ LET k == [scope |-> Scope(t), conf |-> Cur(t).conf] IN
     /\ oper' = oper \cup {k}
     \* a dict that grows while another thread iterates it makes that iteration raise RuntimeError
     /\ failed' = IF k \notin oper THEN failed \cup (iterating \ {t}) ELSE failed
  /\ Goto(t, "w_unlock") /\ UNCHANGED <<ip, stacks, operLock, iterating, singles, sLock, ctors, got, reads>>
WUnlock(t) ==
  /\ pc[t] = "w_unlock"
  /\ operLock' = IF operLock = t THEN "none" ELSE operLock
  /\ Goto(t, IF Cur(t).single # "" THEN "s_lock" ELSE "w_body")
  /\ UNCHANGED <<ip, stacks, oper, iterating, singles, sLock, ctors, got, failed, reads>>

\* singleton_value (2757-2766)
SLock(t) ==
  /\ pc[t] = "s_lock" /\ (LockSingletons => sLock = "none")
  /\ sLock' = IF LockSingletons THEN t ELSE sLock
  /\ Goto(t, "s_check") /\ UNCHANGED <<ip, stacks, oper, operLock, iterating, singles, ctors, got, failed, reads>>
SCheck(t) ==
  /\ pc[t] = "s_check"
  /\ IF \E s \in singles : s.key = Cur(t).single
     THEN /\ got' = [got EXCEPT ![t] = @ \cup {CHOOSE s \in singles : s.key = Cur(t).single}]
          /\ Goto(t, "s_unlock")
     ELSE /\ Goto(t, "s_construct") /\ UNCHANGED got
  /\ UNCHANGED <<ip, stacks, oper, operLock, iterating, singles, sLock, ctors, failed, reads>>
SConstruct(t) ==
  /\ pc[t] = "s_construct"
  /\ ctors' = { c \in ctors : c.key # Cur(t).single } \cup {[key |-> Cur(t).single, n |-> CtorCount(Cur(t).single) + 1]}
  /\ Goto(t, "s_store") /\ UNCHANGED <<ip, stacks, oper, operLock, iterating, singles, sLock, got, failed, reads>>
SStore(t) ==
  /\ pc[t] = "s_store"
  /\ LET o == [key |-> Cur(t).single, obj |-> <<t, CtorCount(Cur(t).single)>>] IN
     /\ singles' = { s \in singles : s.key # o.key } \cup {o}
     /\ got' = [got EXCEPT ![t] = @ \cup {o}]
  /\ Goto(t, "s_unlock") /\ UNCHANGED <<ip, stacks, oper, operLock, iterating, sLock, ctors, failed, reads>>
SUnlock(t) ==
  /\ pc[t] = "s_unlock"
  /\ sLock' = IF sLock = t THEN "none" ELSE sLock
  /\ Goto(t, "w_body") /\ UNCHANGED <<ip, stacks, oper, operLock, iterating, singles, ctors, got, failed, reads>>
WBody(t) ==
  /\ pc[t] = "w_body" /\ NextOp(t)
  /\ UNCHANGED <<stacks, oper, operLock, iterating, singles, sLock, ctors, got, failed, reads>>

\* operative_config_str: `with _OPERATIVE_CONFIG_LOCK:` the whole formatting (2247-2250)
RLock(t) ==
  /\ pc[t] = "r_lock" /\ (LockOper => operLock = "none")
  /\ operLock' = IF LockOper THEN t ELSE operLock
  /\ iterating' = iterating \cup {t}
  /\ Goto(t, "r_iter") /\ UNCHANGED <<ip, stacks, oper, singles, sLock, ctors, got, failed, reads>>
RIter(t) ==
  /\ pc[t] = "r_iter"
  /\ reads' = reads \cup {[t |-> t, snapshot |-> oper]}
  /\ iterating' = iterating \ {t}
  /\ Goto(t, "r_unlock") /\ UNCHANGED <<ip, stacks, oper, operLock, singles, sLock, ctors, got, failed>>
RUnlock(t) ==
  /\ pc[t] = "r_unlock"
  /\ operLock' = IF operLock = t THEN "none" ELSE operLock
  /\ NextOp(t) /\ UNCHANGED <<stacks, oper, iterating, singles, sLock, ctors, got, failed, reads>>

Next == \E t \in Threads :
  \/ Start(t) \/ WLock(t) \/ WMerge(t) \/ WUnlock(t) \/ SLock(t) \/ SCheck(t) \/ SConstruct(t) \/ SStore(t)
  \/ SUnlock(t) \/ WBody(t) \/ RLock(t) \/ RIter(t) \/ RUnlock(t)
Spec == Init /\ [][Next]_vars

------------------------------------------------------------------------------
AllDone == \A t \in Threads : Done(t)

\* no call or read fails because of another thread
C18_NoFailure == failed = {}
\* when all threads finish, the operative record equals that of running the same calls one after another
SequentialOper ==
  LET RECURSIVE Walk(_, _, _, _)
      Walk(prog, i, st, acc) ==
        IF i > Len(prog) THEN acc
        ELSE CASE prog[i].op = "enter" -> Walk(prog, i + 1, Append(st, st[Len(st)] \o <<prog[i].scope>>), acc)
               [] prog[i].op = "exit" -> Walk(prog, i + 1, IF Len(st) > 1 THEN SubSeq(st, 1, Len(st) - 1) ELSE st, acc)
               [] prog[i].op = "call" -> Walk(prog, i + 1, st, acc \cup {[scope |-> st[Len(st)], conf |-> prog[i].conf]})
               [] OTHER -> Walk(prog, i + 1, st, acc)
  IN UNION { Walk(Programs[t], 1, << <<>> >>, {}) : t \in Threads }
C18_Sequential == AllDone => oper = SequentialOper
\* a singleton is constructed at most once per key, and every user receives that same object
C18_Once ==
  /\ \A c \in ctors : c.n <= 1
  /\ \A t, u \in Threads : \A a \in got[t], b \in got[u] : a.key = b.key => a.obj = b.obj
\* the active scope is private to a thread: every record a thread makes carries a scope from its own program
C09_Private ==
  \A t \in Threads : stacks[t][1] = <<>> /\
    \A i \in 1..Len(stacks[t]) : \A j \in 1..Len(stacks[t][i]) :
        \E k \in 1..Len(Programs[t]) : Programs[t][k].op = "enter" /\ Programs[t][k].scope = stacks[t][i][j]
=============================================================================
