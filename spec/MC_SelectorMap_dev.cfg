SPECIFICATION Spec
CONSTANTS
  Names <- XNames
  Queries <- XQueries
  Handles = {"h1"}
  FirstHandle = "h1"
  Values = {1}
  DevMinimalRoot = TRUE
INVARIANT C08_Minimal
CHECK_DEADLOCK FALSE
