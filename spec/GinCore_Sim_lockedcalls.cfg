SPECIFICATION Spec
CONSTANTS
  Confs <- Shapes
  InitRegs <- QuickRegs
  ScopeNames = {"a", "ab"}
  MaxScopeDepth = 0
  MaxStack = 4
  BindVals <- BV1
  MaxBindings = 2
  Enabled = {"Bind", "Call", "Finalize"}
  NameOrder <- Names6
  HookUniverse = {}
  BindApis = {"tuple"}
  FreshConfs = {}
  ConstNames = {}
  BindFilter <- AnyBind
  ConstVals = {}
  QuerySpellings = {}
  CallMaxExtra = 0
  CallExtraKw = {}
  CallsWithReq = FALSE
  DevKwEval = FALSE
CONSTRAINT ExportConstraint
CHECK_DEADLOCK FALSE
