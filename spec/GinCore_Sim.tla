---------------------------- MODULE GinCore_Sim ----------------------------
(* Behaviour export for spec -> code replay (see SelectorMap_Sim).  One JSON file per
   behaviour of length SimDepth: a sequence of states with all variables and the
   action (name + parameter values) that led to each. *)
EXTENDS MC_GinCore, TLCExt, Json, IOUtils

ASSUME TLCSet(1, 0)   \* id of the last exported behaviour

SimDepth == IF "SIM_DEPTH" \in DOMAIN IOEnv THEN atoi(IOEnv.SIM_DEPTH) ELSE 12

ExportConstraint ==
  \* exactly one export per simulated behaviour (stats.traces is its ordinal)
  IF TLCGet("level") = SimDepth /\ TLCGet("stats").traces # TLCGet(1)
  THEN /\ TLCSet(1, TLCGet("stats").traces)
       /\ JsonSerialize(IOEnv.OUT_DIR \o "/b" \o ToString(TLCGet(1)) \o ".json", Trace)
  ELSE TRUE
=============================================================================
