SPECIFICATION Spec
CONSTANTS
  Confs <- RefConfs
  InitRegs <- RefRegs
  ScopeNames = {"a", "b"}
  MaxScopeDepth = 1
  MaxStack = 2
  BindVals <- RefBindVals
  MaxBindings = 2
  Enabled = {"Bind", "EnterScope", "ExitScope"}
  NameOrder <- NamesRefs
  HookUniverse = {}
  BindApis = {"tuple"}
  FreshConfs = {}
  BindFilter <- RefFilter
  ConstVals = {}
  QuerySpellings = {}
  ConstNames = {}
  CallMaxExtra = 0
  CallExtraKw = {}
  CallsWithReq = FALSE
  DevKwEval = FALSE
VIEW ViewStoreOrdered
INVARIANT C04_Refs
CHECK_DEADLOCK FALSE
