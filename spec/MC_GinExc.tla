----------------------------- MODULE MC_GinExc -----------------------------
EXTENDS GinExc
D(id, ctor, attrs, isExc) == [id |-> id, ctor |-> ctor, attrs |-> attrs, isExc |-> isExc]
Descs == {
  D("plain", "none", {"args"}, TRUE),
  D("dict-attrs", "init-required", {"dict", "args"}, TRUE),
  D("slots", "none", {"slots", "args"}, TRUE),
  D("c-members", "none", {"cmember", "args"}, TRUE),
  D("new-required", "new-required", {"cmember", "args"}, TRUE),
  D("unproxiable", "unproxiable", {"dict", "args"}, TRUE),
  D("base-only", "none", {"args"}, FALSE) }
=============================================================================
