----------------------------- MODULE MC_GinStmt -----------------------------
EXTENDS GinStmt

Bind(sel, scope, selector, arg, val, shape) ==
  [t |-> "bind", sel |-> sel, scope |-> scope, selector |-> selector, arg |-> arg, val |-> val, shape |-> shape]
Bad(tk) == [t |-> "bad", toks |-> tk, opens |-> FALSE]
BadOpen(tk) == [t |-> "bad", toks |-> tk, opens |-> TRUE]    \* leaves an indented block open

Good == {
  Bind(<<"a",".","b">>, <<>>, <<"a">>, <<"b">>, <<"n">>, <<"num">>),
  Bind(<<"a","/","b","/","c",".","a",".","b">>, <<"a","/","b">>, <<"c",".","a">>, <<"b">>,
       <<"[","n","nl",",","n","]">>, <<"list", << <<"num">>, <<"num">> >> >>),
  Bind(<<"a">>, <<>>, <<"a">>, <<>>, <<"n">>, <<"num">>),                             \* macro definition
  Bind(<<"a","/","b">>, <<"a">>, <<"b">>, <<>>, <<"s">>, <<"str", <<"s">>>>),         \* scoped macro definition
  [t |-> "blockable", hdr |-> <<"a","/","b",".","c">>, scope |-> <<"a">>, selector |-> <<"b",".","c">>, args |-> <<"a","b">>],
  [t |-> "blockable", hdr |-> <<"c">>, scope |-> <<>>, selector |-> <<"c">>, args |-> <<"a">>],
  [t |-> "import", mod |-> <<"a",".","b">>, alias |-> <<>>],
  [t |-> "import", mod |-> <<"a">>, alias |-> <<"c">>],
  [t |-> "from", mod |-> <<"a",".","b">>, name |-> "c", alias |-> <<>>],
  [t |-> "from", mod |-> <<"a">>, name |-> "b", alias |-> <<"c">>],
  [t |-> "include"],
  \* names that are also statement keywords: followed by '=' or ':' they are ordinary names (244-253 come first)
  Bind(<<"include">>, <<>>, <<"include">>, <<>>, <<"n">>, <<"num">>),
  Bind(<<"import">>, <<>>, <<"import">>, <<>>, <<"s">>, <<"str", <<"s">>>>),
  Bind(<<"a","/","from">>, <<"a">>, <<"from">>, <<>>, <<"n">>, <<"num">>),
  Bind(<<"include",".","a">>, <<>>, <<"include">>, <<"a">>, <<"n">>, <<"num">>),
  [t |-> "blockable", hdr |-> <<"include">>, scope |-> <<>>, selector |-> <<"include">>, args |-> <<"a">>] }

Malformed == {
  Bad(<<"a","/_","b",".","c","=","n">>),      \* whitespace inside a scoped name
  Bad(<<"a","/","b_",".","c","=","n">>),
  Bad(<<"a",".","b_","=","n">>),
  Bad(<<"a","//","b",".","c","=","n">>),      \* empty scope component (the tokenizer yields one // token)
  Bad(<<"a","/",".","b","=","n">>),
  Bad(<<"a","/","b",".","=","n">>),           \* trailing separator
  Bad(<<"a",".","b","/","c","=","n">>),       \* '.' inside a scope name of a binding
  Bad(<<"a",".","b","=">>),                   \* missing value
  Bad(<<"a",".","b","n">>),                   \* missing '='
  Bad(<<"import","a","/","b">>),              \* scoped module
  Bad(<<"from","a","as","b">>),
  Bad(<<"include","n">>),
  Bad(<<"a",":","NEWLINE","a","=","n">>),     \* block without indentation
  BadOpen(<<"c",":","NEWLINE","INDENT","a","/","b","=","n">>) }   \* scoped member

AllTemplates == Good \cup Malformed
=============================================================================
