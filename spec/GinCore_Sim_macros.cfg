SPECIFICATION Spec
CONSTANTS
  Confs <- MacConfs
  InitRegs <- MacRegs
  ScopeNames <- MacScopeNames
  MaxScopeDepth = 1
  MaxStack = 1
  BindVals <- MacBindVals
  MaxBindings = 6
  Enabled = {"Bind", "DefineConstant", "Interactive", "Finalize", "Call", "Clear", "Unlock"}
  NameOrder <- NamesMac
  HookUniverse = {}
  BindApis = {"text"}
  FreshConfs = {}
  BindFilter <- MacFilter
  ConstVals <- MacConstVals
  QuerySpellings = {}
  ConstNames <- MacConstNames
  CallMaxExtra = 0
  CallExtraKw = {}
  CallsWithReq = FALSE
  DevKwEval = FALSE
CONSTRAINT ExportConstraint
CHECK_DEADLOCK FALSE
