SPECIFICATION Spec
CONSTANTS
  Descriptors <- Descs
  Confs = {"f", "g"}
  Scopes = {"", "a/b"}
  MaxDepth = 3
  KnownDeviations = TRUE
INVARIANT C17_Attrs
CHECK_DEADLOCK FALSE
