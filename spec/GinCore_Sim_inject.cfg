SPECIFICATION Spec
CONSTANTS
  Confs <- Shapes
  InitRegs <- OneShapeRegs
  ScopeNames = {"a", "ab"}
  MaxScopeDepth = 3
  MaxStack = 4
  BindVals <- BV12
  MaxBindings = 5
  Enabled = {"Bind", "EnterScope", "ExitScope", "Call"}
  NameOrder <- Names6
  CallsWithReq = FALSE
  DevKwEval = FALSE
CONSTRAINT ExportConstraint
CHECK_DEADLOCK FALSE
