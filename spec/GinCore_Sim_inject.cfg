SPECIFICATION Spec
CONSTANTS
  Confs <- Shapes
  InitRegs <- OneShapeRegs
  ScopeNames = {"a", "ab"}
  MaxScopeDepth = 3
  MaxStack = 4
  BindVals <- BV123
  MaxBindings = 5
  Enabled = {"Bind", "EnterScope", "ExitScope", "Call"}
  NameOrder <- Names6
  HookUniverse = {}
  BindApis = {"tuple"}
  FreshConfs = {}
  ConstNames = {}
  BindFilter <- AnyBind
  ConstVals = {}
  QuerySpellings = {}
  CallMaxExtra = 1
  CallExtraKw = {"z"}
  CallsWithReq = FALSE
  DevKwEval = FALSE
CONSTRAINT ExportConstraint
CHECK_DEADLOCK FALSE
