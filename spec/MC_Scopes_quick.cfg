SPECIFICATION Spec
CONSTANTS
  Confs = {}
  InitRegs = {{}}
  ScopeNames = {"a", "b"}
  MaxScopeDepth = 3
  MaxStack = 4
  BindVals = {}
  MaxBindings = 0
  Enabled = {"EnterScope", "ExitScope"}
  NameOrder <- NamesPQ
  HookUniverse = {}
  BindApis = {"tuple"}
  FreshConfs = {}
  ConstNames = {}
  BindFilter <- AnyBind
  ConstVals = {}
  QuerySpellings = {}
  CallMaxExtra = 1
  CallExtraKw = {"z"}
  CallsWithReq = FALSE
  DevKwEval = FALSE
INVARIANT C09_StackShape
PROPERTY C09_Compose
PROPERTY C09_Restore
CHECK_DEADLOCK FALSE
