---------------------------- MODULE MC_GinThreads ----------------------------
EXTENDS GinThreads
Call(c, s) == [op |-> "call", conf |-> c, single |-> s]
Read == [op |-> "read"]
Enter(s) == [op |-> "enter", scope |-> s]
Exit == [op |-> "exit"]
T3 == {"t1", "t2", "t3"}
P3 == [t \in T3 |-> CASE t = "t1" -> <<Enter("a"), Call("f", "s1"), Exit, Call("g", "")>>
                      [] t = "t2" -> <<Call("f", "s1"), Read>>
                      [] t = "t3" -> <<Enter("b"), Read, Call("h", "s2")>>]
T2 == {"t1", "t2"}
P2 == [t \in T2 |-> CASE t = "t1" -> <<Enter("a"), Call("f", "s1"), Read>>
                      [] t = "t2" -> <<Call("f", "s1"), Read, Call("g", "s1")>>]
=============================================================================
