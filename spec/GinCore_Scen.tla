---------------------------- MODULE GinCore_Scen ----------------------------
(* Scenario-directed behaviour export (spec -> code).  During a breadth-first run of a
   small GinCore model, every state whose scenario key (ScenKey, chosen by the constant
   ScenKind) has not been seen yet has the behaviour leading to it (TLCExt!Trace, a
   shortest one) written as JSON.  Unlike random simulation this guarantees that every
   scenario class the model can reach - e.g. every (finalize outcome, hook sequence,
   lock state) combination - is replayed into the real code.  Run with -workers 1. *)
EXTENDS MC_GinCore, TLCExt, Json, IOUtils

CONSTANT ScenKind

ASSUME TLCSet(2, {})      \* scenario keys already exported
ASSUME TLCSet(3, 0)       \* number of files written

HookIds == [i \in 1..Len(hooks) |-> hooks[i].id]

ScenKey ==
  CASE ScenKind = "lock" ->
         IF out.op = "Finalize"
         THEN <<"finalize", out.status, HookIds, locked, Len(usaved)>>
         ELSE IF out.op = "UnlockExit"
         THEN <<"unlockexit", out.byException, out.before, locked, usaved>>
         ELSE IF out.op \in {"Bind", "Register"} /\ out.status = "RuntimeError"
         THEN <<"guard", out.op, Len(usaved), IF out.op = "Register" THEN out.conf.sel ELSE <<>> >>
         ELSE IF out.op = "Clear" THEN <<"clear", out.clearConstants, Len(usaved), Len(hooks)>>
         ELSE <<"none">>
    [] ScenKind = "call" ->
         IF out.op = "Call"
         THEN <<"call", out.sel, out.pargs, out.ckw, out.status, out.missing,
                { <<cfg[i].scope, cfg[i].param>> : i \in 1..Len(cfg) }, CurScope>>
         ELSE <<"none">>
    [] ScenKind = "refcall" ->
         IF out.op = "Call" /\ \E i \in 1..Len(cfg) :
                                  /\ cfg[i].sel = out.sel /\ IsPrefix(cfg[i].scope, CurScope)
                                  /\ \E v \in Flatten(cfg[i].val) : Tag(v) = "ref"
         THEN <<"refcall", out.sel, Len(out.pargs), { e[1] : e \in out.ckw }, out.status,
                { <<cfg[i].scope, cfg[i].sel, cfg[i].param, cfg[i].val>> : i \in 1..Len(cfg) }, CurScope>>
         ELSE <<"none">>
    [] ScenKind = "bind" ->
         IF out.op = "Bind" THEN <<"bind", out.api, out.sel, out.param, out.status, out.why, Len(cfg)>>
         ELSE <<"none">>
    [] ScenKind = "clear" ->
         \* clear_config by what there was to clear: every combination of empty / non-empty stores before the call
         IF out.op = "Clear" THEN <<"clear", out.clearConstants, out.had, Len(usaved), interactive, { k.name : k \in consts }>>
         ELSE <<"none">>
    [] ScenKind = "macrofin" ->
         \* finalize by what the configuration says about macros: definitions and every way of referring to them
         IF out.op = "Finalize"
         THEN <<"fin", out.status, { <<cfg[i].scope, cfg[i].sel, cfg[i].param, cfg[i].val>> : i \in 1..Len(cfg) }>>
         ELSE <<"none">>
    [] ScenKind = "const" ->
         \* a %name parsed into the configuration, by outcome, by the constants that exist and by what earlier
         \* %name parses left in the store (so: the same abbreviation parsed before and after further definitions)
         IF out.op = "Bind" /\ Tag(out.val) = "pct"
         THEN <<"pct", out.val, out.status, { k.name : k \in consts }, { cfg[i].val : i \in 1..Len(cfg) }>>
         ELSE IF out.op = "DefineConstant"
         THEN <<"define", out.name, out.status, { k.name : k \in consts }, interactive>>
         ELSE IF out.op = "QueryConst"
         THEN <<"query", out.name, out.status, out.val, { k.name : k \in consts }>>
         ELSE <<"none">>
    [] OTHER -> <<"none">>

MaxFiles == IF "SCEN_MAX" \in DOMAIN IOEnv THEN atoi(IOEnv.SCEN_MAX) ELSE 400
MaxLevel == IF "SCEN_DEPTH" \in DOMAIN IOEnv THEN atoi(IOEnv.SCEN_DEPTH) ELSE 8

ExportScen ==
  LET k == ScenKey IN
  IF TLCGet(3) >= MaxFiles \/ TLCGet("level") > MaxLevel THEN FALSE   \* enough: prune the rest of the search
  ELSE IF k # <<"none">> /\ k \notin TLCGet(2)
  THEN /\ TLCSet(2, TLCGet(2) \cup {k})
       /\ TLCSet(3, TLCGet(3) + 1)
       /\ JsonSerialize(IOEnv.OUT_DIR \o "/b" \o ToString(TLCGet(3)) \o ".json", Trace)
  ELSE TRUE
=============================================================================
