SPECIFICATION Spec
CONSTANTS
  Confs <- RefConfs
  InitRegs <- RefRegs
  ScopeNames = {"a", "b"}
  MaxScopeDepth = 2
  MaxStack = 3
  BindVals <- RefBindVals
  MaxBindings = 6
  Enabled = {"Bind", "EnterScope", "ExitScope", "Call"}
  NameOrder <- NamesRefs
  HookUniverse = {}
  BindApis = {"tuple", "text"}
  FreshConfs = {}
  BindFilter <- RefFilter
  ConstVals = {}
  QuerySpellings = {}
  ConstNames = {}
  CallMaxExtra = 0
  CallExtraKw = {}
  CallsWithReq = FALSE
  DevKwEval = FALSE
CONSTRAINT ExportConstraint
CHECK_DEADLOCK FALSE
