SPECIFICATION Spec
CONSTANTS
  Requests <- Reqs
  MaxSteps = 4
INVARIANT C13_Functional
PROPERTY C13_Atomic
PROPERTY C13_Interactive
PROPERTY C13_ModeEnds
CHECK_DEADLOCK FALSE
