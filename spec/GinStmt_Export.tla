--------------------------- MODULE GinStmt_Export ---------------------------
(* Spec -> code: every text (token sequence) TLC builds, with the statements it spells and the
   specification parser's result, one JSON string per line (run with -workers 1). *)
EXTENDS MC_GinStmt, Json
ExportAll == PrintT(ToJson(<<Text, expected>>))
=============================================================================
