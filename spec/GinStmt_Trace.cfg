SPECIFICATION TSpec
CONSTANTS
  Alphabet = {}
  MaxLen = 0
  Templates = {}
  MaxStmts = 0
CONSTRAINT Verdict
CHECK_DEADLOCK FALSE
