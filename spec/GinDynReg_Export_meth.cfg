SPECIFICATION Spec
CONSTANTS
  Attr <- Tree
  ModuleOf <- Mods
  ExtraLoads <- Extra
  SkipForms <- SkipFalseOnly
  Templates <- TplMeth
  PrevDocs <- NoPrev
  MaxStmts = 4
CONSTRAINT ExportAll
INVARIANT C19_ExactObject
INVARIANT C19_SameConfigurable
INVARIANT C19_Errors
INVARIANT C19_NothingElse
CHECK_DEADLOCK FALSE
