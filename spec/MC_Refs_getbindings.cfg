SPECIFICATION Spec
CONSTANTS
  Confs <- RefConfs
  InitRegs <- RefRegs
  ScopeNames = {"a", "b"}
  MaxScopeDepth = 1
  MaxStack = 2
  BindVals <- RefBindValsQuick
  MaxBindings = 1
  Enabled = {"Bind", "EnterScope", "ExitScope", "GetBindings"}
  NameOrder <- NamesRefs
  HookUniverse = {}
  BindApis = {"tuple"}
  FreshConfs = {}
  BindFilter <- RefFilterQuick
  ConstVals = {}
  QuerySpellings <- RefSpellings
  ConstNames = {}
  CallMaxExtra = 0
  CallExtraKw = {}
  CallsWithReq = FALSE
  DevKwEval = FALSE
VIEW ViewNoOut
INVARIANT C04_Refs
PROPERTY GetBindingsAgrees
CHECK_DEADLOCK FALSE
