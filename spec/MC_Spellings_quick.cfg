SPECIFICATION Spec
CONSTANTS
  Confs <- SpConfs
  InitRegs <- SpRegs
  ScopeNames = {"a"}
  MaxScopeDepth = 1
  MaxStack = 1
  BindVals <- BV12
  MaxBindings = 2
  Enabled = {"BindSp", "Query", "Register", "GetBindings"}
  NameOrder <- NamesPQ
  HookUniverse = {}
  BindApis = {"string"}
  FreshConfs <- SpFresh
  BindFilter <- AnyBind
  ConstVals = {}
  QuerySpellings <- Spellings
  ConstNames = {}
  CallMaxExtra = 0
  CallExtraKw = {}
  CallsWithReq = FALSE
  DevKwEval = FALSE
VIEW ViewNoOutUnordered
INVARIANT C11_StoreValid
PROPERTY C08_SameKey
PROPERTY C08_AmbiguousRejected
CHECK_DEADLOCK FALSE
