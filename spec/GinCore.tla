------------------------------ MODULE GinCore ------------------------------
(***************************************************************************)
(* gin/config.py: the configuration store, the scope stack, the injecting  *)
(* wrapper, reference evaluation, the operative record, the lock flag,     *)
(* finalize hooks and clear_config.                                        *)
(*                                                                          *)
(* Written to be bound to the code.  Variables are the abstract content of *)
(* the module globals:                                                      *)
(*   reg      _REGISTRY          set of registered configurable descriptors *)
(*   cfg      _CONFIG            sequence of [scope, sel, param, val] in    *)
(*                               insertion order (dict order decides the   *)
(*                               order in which references are evaluated)  *)
(*   stack    _SCOPE_MANAGER     sequence of scope lists, bottom = <<>>     *)
(*   okeys    _OPERATIVE_CONFIG  keys (scope string, selector) present      *)
(*   oper     _OPERATIVE_CONFIG  set of [scope, sel, param, val]            *)
(*   locked   _CONFIG_IS_LOCKED                                             *)
(*   usaved   the `config_was_locked` locals of the open unlock_config()s   *)
(*   interactive _INTERACTIVE_MODE                                          *)
(*   singles  _SINGLETONS        set of [key, obj]                          *)
(*   imports  _IMPORTS           set of module names recorded by parses     *)
(*   consts   _CONSTANTS         set of [name, val] (gin.REQUIRED implicit) *)
(*   hooks    _FINALIZE_HOOKS    user hooks (sequence of hook descriptors)  *)
(*   out      what the last public call returned / raised / delivered      *)
(* Actions are the public entry points.  The big operators are step by     *)
(* step transcriptions of the code (line ranges in comments); the          *)
(* declarative properties (C01_*, C04_*, ...) are stated independently.     *)
(*                                                                          *)
(* Values are tagged tuples so that they survive JSON in both directions:  *)
(*   <<"lit", s>>  <<"nonlit", s>>  <<"req">>                               *)
(*   <<"ref", selector, scope, "call"|"bare">>   @scope/sel()  /  @scope/sel *)
(*   <<"unk", name, "call"|"bare">>              placeholder for unknown    *)
(*   <<"list", <<v...>>>> <<"tuple", <<v...>>>> <<"dict", <<<<k,v>>...>>>> *)
(*   results: <<"res", sel, scope, delivered>>  <<"fnref", sel, scope>>     *)
(*            <<"constobj", name>> <<"self">> <<"cp", i>> <<"ck", name>>    *)
(***************************************************************************)
EXTENDS Naturals, Sequences, FiniteSets, SequencesExt, TLC

CONSTANTS
  Confs,        \* universe of configurable descriptors (records, see below)
  InitRegs,     \* set of possible initial registries (each a subset of Confs)
  ScopeNames,   \* scope components that config_scope / bindings may use
  MaxScopeDepth,\* bound on the depth of binding scopes and of the active scope
  MaxStack,     \* bound on nesting of config_scope blocks
  BindVals,     \* values that Bind may store
  MaxBindings,  \* bound on Cardinality(cfg)
  Enabled,      \* set of action names enabled in this model
  NameOrder,    \* all parameter names in a fixed order (TLC cannot compare strings)
  HookUniverse, \* finalize hooks a behaviour may register: [id, rets, raises]
  BindApis,     \* binding API paths explored: "tuple", "string", "text", "block"
  FreshConfs,   \* descriptors that Register may add during a behaviour
  BindFilter(_, _, _), \* (scope, descriptor, value): which values a behaviour may bind to which configurable (keeps reference graphs acyclic)
  ConstVals,    \* values of constants
  QuerySpellings, \* spellings used by Query
  ConstNames,   \* names DefineConstant may use (sequences of components)
  CallMaxExtra, \* how many surplus positionals Call explores (0 or 1)
  CallExtraKw,  \* names outside the signature that Call passes by keyword
  CallsWithReq, \* whether Call explores gin.REQUIRED markers passed by the caller
  DevKwEval     \* TRUE models the pre-fix behaviour F6 (keyword-overridden refs evaluated)

\* modules a config text may import (real, side-effect free standard modules) and keys of directly built singletons
ImportModules == {"colorsys", "string", "os.path"}
DirectSingletonKeys == { <<"d1">>, <<"s1">> }
ConstQueryNames == { <<"X">>, <<"m","X">>, <<"Y">>, <<"n","Y">> }      \* names query_parameter may be asked for        \* "s1" is also a scope under which the models use gin.singleton

(* A configurable descriptor:
     [ sel   : full selector, a sequence of components, e.g. <<"m","f">>
       kind  : "fn" | "cls" | "meth"      (cls/meth: first positional is self)
       pos   : sequence of named positional parameters (without self)
       npd   : number of trailing positionals that have defaults
       kwo   : sequence of keyword-only parameters
       kwd   : set of keyword-only parameters that have defaults
       va    : has *args        vk : has **kwargs
       dflt  : set of <<param, value>> for the defaulted parameters
       allow : set of names or {"*"} for no allowlist     deny : set of names
       body  : "record" | "macro" | "const" | "singleton"
       api   : "configurable" | "external" | "register" ] *)

VARIABLES reg, cfg, stack, okeys, oper, locked, usaved, interactive, singles, consts, hooks, imports, out

vars == <<reg, cfg, stack, okeys, oper, locked, usaved, interactive, singles, consts, hooks, imports, out>>

------------------------------------------------------------------------------
(* value constructors *)
Lit(s) == <<"lit", s>>
Req == <<"req">>
Self == <<"self">>
IsReq(v) == v = Req
Tag(v) == v[1]

(* scopes *)
\* IsPrefix(p, s) comes from SequencesExt: p is a component-wise prefix of s
ScopePaths == UNION { [1..k -> ScopeNames] : k \in 0..MaxScopeDepth }
CurScope == stack[Len(stack)]

(* signatures *)
SigArgs(c) == IF c.kind \in {"cls", "meth"} THEN <<"self">> \o c.pos ELSE c.pos   \* arg_spec.args
NamedParams(c) == ToSet(SigArgs(c)) \cup ToSet(c.kwo)
HasDefault(c, p) == \E d \in c.dflt : d[1] = p
DefaultOf(c, p) == (CHOOSE d \in c.dflt : d[1] = p)[2]
\* the registered descriptor with that selector (selectors are unique within a registry)
ConfBySel(sel) == IF \E c \in reg : c.sel = sel THEN CHOOSE c \in reg : c.sel = sel ELSE CHOOSE c \in Confs : c.sel = sel
Allowed(c, p) == (c.allow = {"*"} \/ p \in c.allow) /\ p \notin c.deny
\* _might_have_parameter (1118-1141)
MightHave(c, p) == c.vk \/ p \in NamedParams(c)
\* a function that somebody else's functools.wraps decorator wraps when it is registered (c.deco): parameter names are
\* validated against the innermost function (1155-1157 follows __wrapped__), but the wrapper that Gin builds only sees
\* the decorator's own (STAR args, STARSTAR kwargs) signature (getfullargspec does not follow __wrapped__): no positional
\* names, no defaults; Python binds the merged arguments to the inner function afterwards
Outer(c) == IF c.deco THEN [c EXCEPT !.pos = <<>>, !.npd = 0, !.kwo = <<>>, !.kwd = {}, !.va = TRUE, !.vk = TRUE, !.dflt = {}] ELSE c

(* finite maps as sets of <<key, value>> pairs *)
Dom(m) == { e[1] : e \in m }
Get(m, k) == (CHOOSE e \in m : e[1] = k)[2]
Put(m, k, v) == { e \in m : e[1] # k } \cup {<<k, v>>}
Del(m, k) == { e \in m : e[1] # k }
DelAll(m, ks) == { e \in m : e[1] \notin ks }
Update(m, n) == { e \in m : e[1] \notin Dom(n) } \cup n        \* dict.update (unordered view)

(* insertion-ordered dicts as sequences of <<key, value>> with unique keys: the order in
   which copy.deepcopy meets the values (hence the order of evaluations) is dict order *)
ODom(m) == { m[i][1] : i \in 1..Len(m) }
OSet(m) == ToSet(m)
OPut(m, k, v) == IF k \in ODom(m)
                 THEN [i \in 1..Len(m) |-> IF m[i][1] = k THEN <<k, v>> ELSE m[i]]
                 ELSE Append(m, <<k, v>>)
RECURSIVE OUpdate(_, _)
OUpdate(m, n) == IF n = <<>> THEN m ELSE OUpdate(OPut(m, Head(n)[1], Head(n)[2]), Tail(n))
ODelAll(m, ks) == SelectSeq(m, LAMBDA e : e[1] \notin ks)

------------------------------------------------------------------------------
(* _get_bindings (1381-1398): overlay of the prefixes, shortest first *)
\* cf is the binding store in insertion order; the inner dict of one (scope, selector)
CfgAt(cf, scope, sel) ==
  LET sub == SelectSeq(cf, LAMBDA x : x.scope = scope /\ x.sel = sel)
  IN [i \in 1..Len(sub) |-> <<sub[i].param, sub[i].val>>]

RECURSIVE OverlayFrom(_, _, _, _, _)
OverlayFrom(cf, sel, scope, i, acc) ==
  IF i > Len(scope) THEN acc
  ELSE OverlayFrom(cf, sel, scope, i + 1, OUpdate(acc, CfgAt(cf, SubSeq(scope, 1, i), sel)))

Overlay(cf, sel, scope) == OverlayFrom(cf, sel, scope, 0, <<>>)   \* an ordered map

------------------------------------------------------------------------------
(* Python's own argument binding of fn(STAR args, STARSTAR kwargs) against a signature.
   args: sequence of values; kw: map.  Result: [ok, delivered, va, kw]  *)
PyBind(c, args, kw) ==
  LET sa      == SigArgs(c)
      npos    == IF Len(args) <= Len(sa) THEN Len(args) ELSE Len(sa)
      posmap  == { <<sa[i], args[i]>> : i \in 1..npos }
      extra   == IF Len(args) > Len(sa) THEN SubSeq(args, Len(sa) + 1, Len(args)) ELSE <<>>
      named   == NamedParams(c)
      kwnamed == { e \in kw : e[1] \in named }
      kwextra == { e \in kw : e[1] \notin named }
      dup     == Dom(posmap) \cap Dom(kwnamed)
      filled  == posmap \cup kwnamed
      missing == { p \in named : p \notin Dom(filled) /\ ~HasDefault(c, p) }
      withdef == filled \cup { <<p, DefaultOf(c, p)>> : p \in { q \in named : q \notin Dom(filled) /\ HasDefault(c, q) } }
  IN IF (extra # <<>> /\ ~c.va) \/ (kwextra # {} /\ ~c.vk) \/ dup # {} \/ missing # {}
     THEN [ok |-> FALSE, delivered |-> {}, va |-> <<>>, kw |-> {}]
     ELSE [ok |-> TRUE, delivered |-> withdef, va |-> extra, kw |-> kwextra]

------------------------------------------------------------------------------
(* _order_by_signature (1241-1250): named then keyword-only, leftovers kept *)
SigOrder(c) == SigArgs(c) \o c.kwo
OrderBySig(c, names) ==    \* names: a sequence without duplicates... given as set + encounter order seq
  LET inSig == SelectSeq(SigOrder(c), LAMBDA p : p \in ToSet(names))
      rest  == SelectSeq(names, LAMBDA p : p \notin ToSet(SigOrder(c)))
  IN inSig \o rest

\* _get_kwarg_defaults order (1180-1192): defaulted positionals, then kw-only defaults
KwargDefaultsOrder(c) ==
  SubSeq(SigArgs(c), Len(SigArgs(c)) - c.npd + 1, Len(SigArgs(c))) \o SelectSeq(c.kwo, LAMBDA p : p \in c.kwd)

\* literal representability of a value (_is_literally_representable, 967-1001)
RECURSIVE Representable(_)
Representable(v) ==
  CASE Tag(v) = "lit" -> TRUE
    [] Tag(v) = "ref" -> TRUE
    [] Tag(v) \in {"list", "tuple"} -> \A i \in 1..Len(v[2]) : Representable(v[2][i])
    [] Tag(v) = "dict" -> \A i \in 1..Len(v[2]) : Representable(v[2][i][1]) /\ Representable(v[2][i][2])
    [] OTHER -> FALSE      \* nonlit, req, unk, results

\* initial_configurable_defaults (1213-1238)
ConfigurableDefaults(c) ==
  { d \in c.dflt : Allowed(c, d[1]) /\ Representable(d[2]) }

\* signature_required_kwargs (1195-1210), in _get_kwarg_defaults order
SigRequired(c) == SelectSeq(KwargDefaultsOrder(c), LAMBDA p : HasDefault(c, p) /\ IsReq(DefaultOf(c, p)))

------------------------------------------------------------------------------
RECURSIVE JoinDots(_)
JoinDots(comps) == IF Len(comps) = 1 THEN comps[1] ELSE comps[1] \o "." \o JoinDots(Tail(comps))

(* The state threaded through a (possibly nested) wrapper call *)
MkS(ok, op, sg, ev) == [okeys |-> ok, oper |-> op, singles |-> sg, evals |-> ev]

ScopeStr(s) == s    \* scope strings are kept as component sequences in the model

\* Merge into the operative record (1560-1562): setdefault + update
OperMerge(S, scope, sel, vals) ==
  [S EXCEPT !.okeys = @ \cup {[scope |-> scope, sel |-> sel]},
            !.oper  = { r \in @ : ~(r.scope = scope /\ r.sel = sel /\ r.param \in Dom(vals)) }
                      \cup { [scope |-> scope, sel |-> sel, param |-> e[1], val |-> e[2]] : e \in vals }]


(* A call is [pargs: sequence of caller positionals (without self), kw: map] *)

RECURSIVE CallW(_, _, _, _, _), EvalVal(_, _, _, _), EvalSeq(_, _, _, _, _), EvalMap(_, _, _, _, _)

(* gin_wrapper (1504-1630).  cf: the binding store; S: threaded state; c: descriptor;
   scope: the active scope for this call; call: what the caller passed.
   Result: [s, status, ret, delivered, va, kw, missing, ran] *)
Fail(S, st, missing) ==
  [s |-> S, status |-> st, ret |-> <<"none">>, delivered |-> {}, va |-> <<>>, kw |-> {},
   missing |-> missing, ran |-> FALSE]

CallW(cf, S, c, scope, call) ==
  LET oc       == Outer(c)
      args     == IF c.kind \in {"cls", "meth"} THEN <<Self>> \o call.pargs ELSE call.pargs
      kwargs   == call.kw
      newkw0   == Overlay(cf, c.sel, scope)                                   \* 1507
      sa       == SigArgs(oc)
      nnamed   == IF Len(args) <= Len(sa) THEN Len(args) ELSE Len(sa)
      argnames == SubSeq(sa, 1, nnamed)                                        \* 1511
      vaReq    == \E i \in (nnamed + 1)..Len(args) : IsReq(args[i])            \* 1513-1519
      reqIdx   == { i \in 1..nnamed : IsReq(args[i]) }                         \* 1521-1526
      reqNames == { argnames[i] : i \in reqIdx }
      callerReqKw == { e[1] : e \in { x \in kwargs : IsReq(x[2]) } }           \* 1528-1531
      \* 1537-1539: positionally supplied names lose their binding (unless REQUIRED)
      newkw1   == ODelAll(newkw0, ToSet(argnames) \ reqNames)
      \* 1541-1554: operative values
      opv0     == Update(ConfigurableDefaults(oc), OSet(newkw1))
      opv1     == DelAll(opv0, (ToSet(argnames) \ reqNames) \cup (Dom(kwargs) \ callerReqKw))
      S1       == OperMerge(S, ScopeStr(scope), c.sel, opv1)                   \* 1560-1562
      \* fix of F6: caller keywords (not REQUIRED) are dropped before the deep copy
      newkw2   == IF DevKwEval THEN newkw1 ELSE ODelAll(newkw1, Dom(kwargs) \ callerReqKw)
      ev       == EvalMap(cf, S1, newkw2, scope, {})              \* 1570 deep copy
  IN
  IF vaReq THEN Fail(S, "ValueError", <<>>)
  ELSE IF ev.e # "ok" THEN Fail(ev.s, ev.e, <<>>)
  ELSE
  LET newkw3   == ev.v
      S2       == ev.s
      \* 1572-1592
      missPos  == { argnames[i] : i \in { j \in reqIdx : argnames[j] \notin Dom(newkw3) } }
      newargs  == [i \in 1..Len(args) |->
                     IF i \in reqIdx /\ argnames[i] \in Dom(newkw3) THEN Get(newkw3, argnames[i]) ELSE args[i]]
      newkw4   == DelAll(newkw3, { argnames[i] : i \in reqIdx })
      missSig  == { p \in ToSet(SigRequired(oc)) :
                      p \notin ToSet(argnames) /\ p \notin Dom(kwargs) /\ p \notin Dom(newkw4) }
      missKw   == { p \in callerReqKw : p \notin Dom(newkw4) }
      kwargs2  == DelAll(kwargs, callerReqKw \ missKw)
      \* order in which the code encounters them: positional, signature-required, caller kw
      missSeq  == SelectSeq(argnames, LAMBDA p : p \in missPos)
                  \o SelectSeq(SigRequired(oc), LAMBDA p : p \in missSig /\ p \notin missPos)
                  \o SelectSeq(NameOrder, LAMBDA p : p \in missKw \ (missPos \cup missSig))
  IN
  IF missPos \cup missSig \cup missKw # {}
  THEN Fail(S2, "RuntimeError", OrderBySig(oc, missSeq))                        \* 1594-1600
  ELSE
  LET finalkw == Update(newkw4, kwargs2)                                       \* 1604
      b       == PyBind(c, newargs, finalkw)                                   \* 1607
  IN
  IF ~b.ok THEN Fail(S2, "TypeError", <<>>)
  ELSE
  LET deliv == b.delivered
      kwd   == b.kw
      \* the body
      rec   == [sel |-> c.sel, scope |-> scope, delivered |-> deliv, va |-> b.va, kw |-> kwd]
      S3    == IF c.body = "record" THEN [S2 EXCEPT !.evals = Append(@, rec)] ELSE S2   \* only probes are observable
  IN
  LET okret(S4, ret) == [s |-> S4, status |-> "ok", ret |-> ret, delivered |-> deliv, va |-> b.va, kw |-> kwd,
                         missing |-> <<>>, ran |-> TRUE]
      bodyfail(S4, st) == [s |-> S4, status |-> st, ret |-> <<"none">>, delivered |-> deliv, va |-> b.va, kw |-> kwd,
                           missing |-> <<>>, ran |-> TRUE]
  IN
  CASE c.body = "record" -> okret(S3, <<"res", c.sel, scope, deliv>>)
    [] c.body = "macro" -> okret(S3, Get(b.delivered, "value"))                       \* macro(value) (2740-2743)
    [] c.body = "const" ->                                                              \* _retrieve_constant (2746-2749)
         LET hit == { k \in consts : <<JoinDots(k.name)>> = scope } IN
         IF scope = <<"gin.REQUIRED">> THEN okret(S3, Req)
         ELSE IF hit = {} THEN bodyfail(S3, "KeyError")
         ELSE okret(S3, (CHOOSE k \in hit : TRUE).val)
    [] c.body = "singleton" ->                                                          \* singleton_value (2757-2766)
         LET ctor == Get(b.delivered, "constructor")
             have == { x \in S3.singles : x.key = scope }
         IN IF have # {} THEN okret(S3, (CHOOSE x \in have : TRUE).obj)
            ELSE IF Tag(ctor) # "fnref" THEN bodyfail(S3, "ValueError")                \* not callable
            ELSE LET r == CallW(cf, S3, ConfBySel(ctor[2]), IF ctor[3] # <<>> THEN ctor[3] ELSE scope,
                                [pargs |-> <<>>, kw |-> {}])
                 IN IF r.status # "ok" THEN bodyfail(r.s, r.status)
                    ELSE okret([r.s EXCEPT !.singles = @ \cup {[key |-> scope, obj |-> r.ret]}], r.ret)
    [] OTHER -> okret(S3, <<"none">>)

(* copy.deepcopy over a value (ConfigurableReference.__deepcopy__, 773-794) *)
EvalVal(cf, S, v, amb) ==
  CASE Tag(v) = "ref" ->
         IF v[4] = "bare" THEN [s |-> S, v |-> <<"fnref", v[2], v[3]>>, e |-> "ok"]
         ELSE LET c  == ConfBySel(v[2])
                  sc == IF v[3] # <<>> THEN v[3] ELSE amb                      \* 666-697
                  r  == CallW(cf, S, c, sc, [pargs |-> <<>>, kw |-> {}])
              IN [s |-> r.s, v |-> r.ret, e |-> r.status]
    [] Tag(v) = "unk" -> [s |-> S, v |-> v, e |-> "ValueError"]                \* 816-830
    [] Tag(v) \in {"list", "tuple"} ->
         LET r == EvalSeq(cf, S, v[2], amb, <<>>) IN [s |-> r.s, v |-> <<Tag(v), r.v>>, e |-> r.e]
    [] Tag(v) = "dict" ->
         \* copy.deepcopy of a dict copies key, value, key, value ...: references among the keys are evaluated too
         LET kv == [i \in 1..(2 * Len(v[2])) |-> IF i % 2 = 1 THEN v[2][(i + 1) \div 2][1] ELSE v[2][i \div 2][2]]
             r  == EvalSeq(cf, S, kv, amb, <<>>)
         IN [s |-> r.s, v |-> <<"dict", [i \in 1..(Len(r.v) \div 2) |-> <<r.v[2 * i - 1], r.v[2 * i]>>]>>, e |-> r.e]
    [] OTHER -> [s |-> S, v |-> v, e |-> "ok"]

EvalSeq(cf, S, vs, amb, acc) ==
  IF vs = <<>> THEN [s |-> S, v |-> acc, e |-> "ok"]
  ELSE LET r == EvalVal(cf, S, Head(vs), amb) IN
       IF r.e # "ok" THEN [s |-> r.s, v |-> acc, e |-> r.e]
       ELSE EvalSeq(cf, r.s, Tail(vs), amb, Append(acc, r.v))

\* pairs: sequence of <<param, value>>; result map as a set of pairs
EvalMap(cf, S, pairs, amb, acc) ==
  IF pairs = <<>> THEN [s |-> S, v |-> acc, e |-> "ok"]
  ELSE LET r == EvalVal(cf, S, Head(pairs)[2], amb) IN
       IF r.e # "ok" THEN [s |-> r.s, v |-> acc, e |-> r.e]
       ELSE EvalMap(cf, r.s, Tail(pairs), amb, acc \cup {<<Head(pairs)[1], r.v>>})

------------------------------------------------------------------------------
(* ParsedBindingKey.parse (889-948): validation order of a binding *)
BindVerdict(c, p) ==
  IF ~MightHave(c, p) THEN "no-parameter"
  ELSE IF c.allow # {"*"} /\ p \notin c.allow THEN "not-allowlisted"
  ELSE IF p \in c.deny THEN "denylisted"
  ELSE "ok"

------------------------------------------------------------------------------
(* The space of calls explored for a descriptor: caller values are position /
   name markers, so only the split matters; REQUIRED markers optional. *)
CallerVal(i) == <<"cp", i>>
CallerKw(n) == <<"ck", n>>
CallSpace(c, maxExtra, withReq, extraKwNames) ==
  LET KW == ToSet(c.pos) \cup ToSet(c.kwo) \cup extraKwNames
      Mk(n, ks, rp, rk) ==
        [pargs |-> [i \in 1..n |-> IF i \in rp THEN Req ELSE CallerVal(i)],
         kw    |-> { <<k, IF k \in rk THEN Req ELSE CallerKw(k)>> : k \in ks }]
  IN UNION { UNION { { Mk(n, ks, rp, rk) :
                         rp \in (IF withReq THEN SUBSET (1..n) ELSE {{}}),
                         rk \in (IF withReq THEN SUBSET ks ELSE {{}}) }
                     : ks \in SUBSET KW }
             : n \in 0..(Len(c.pos) + maxExtra) }

\* every call any descriptor of the universe may receive (constants: evaluated once)
CallSpaceOf == [c \in Confs |-> CallSpace(c, CallMaxExtra, CallsWithReq, CallExtraKw)]
AllCalls == UNION { CallSpaceOf[c] : c \in Confs }

ParamNames == ToSet(NameOrder)
\* names a behaviour tries to bind: the signature's own, one foreign name, and (for
\* classes and methods) self
\* ... and the names of the catch-all parameters themselves (`args` of STAR args, `kw` of STARSTAR kw): they are not parameters
BindNames(c) == NamedParams(c) \cup {"z"} \cup (IF c.va THEN {"args"} ELSE {}) \cup (IF c.vk THEN {"kw"} ELSE {})


------------------------------------------------------------------------------
(* names: resolution of a spelling against the registry.  SelectorMap.tla shows that the
   suffix tree implements exactly this (C08_Matching); here it is used declaratively. *)
SuffixOf(q, n) == Len(q) <= Len(n) /\ SubSeq(n, Len(n) - Len(q) + 1, Len(n)) = q
MatchSet(K, q) == IF q \in K THEN {q} ELSE { n \in K : SuffixOf(q, n) }
RegSels == { c.sel : c \in reg }
\* <<"one", descriptor>> | <<"none">> | <<"ambiguous">>
ResolveConf(sp) ==
  LET m == MatchSet(RegSels, sp) IN
  IF m = {} THEN <<"none">>
  ELSE IF Cardinality(m) > 1 THEN <<"ambiguous">>
  ELSE <<"one", CHOOSE c \in reg : c.sel \in m>>
\* a method (kind "meth": its selector is the selector of its class plus its own name) is only addressable through
\* its class: the bare method name is rejected even when it is unambiguous (943-947)
IsMethod(c) == c.kind = "meth"
BareMethod(sp) == ResolveConf(sp)[1] = "one" /\ IsMethod(ResolveConf(sp)[2]) /\ Len(sp) = 1

(* values reachable inside a value: _iterate_flattened_values (2695-2709) *)
RECURSIVE Flatten(_)
Flatten(v) ==
  CASE Tag(v) \in {"list", "tuple"} -> {v} \cup UNION { Flatten(v[2][i]) : i \in 1..Len(v[2]) }
    \* (as the code: a mapping contributes its values, not its keys - a reference used only as a dict key is not seen by
    \* the finalize hooks; recorded as an observation in DESIGN.md)
    [] Tag(v) = "dict" -> {v} \cup UNION { Flatten(v[2][i][2]) : i \in 1..Len(v[2]) }
    [] OTHER -> {v}
AllValues(cf) == UNION { Flatten(cf[i].val) : i \in 1..Len(cf) }

GinMacroSel == <<"gin", "macro">>
GinConstSel == <<"gin", "constant">>


(* constants and %name *)
ReqName == <<"gin", "REQUIRED">>
ConstNameSet == { k.name : k \in consts } \cup {ReqName}

\* ParserDelegate.macro (861-869): %name is resolved when the text is parsed
\* <<"pct", comps>>: comps are the dot-components of the name (a scope-free name)
RECURSIVE ResolveVal(_)
\* result: <<"ok" | "ValueError", value with every %name replaced by the reference it denotes>>
ResolveVal(v) ==
  CASE Tag(v) = "pct" ->
         LET m == MatchSet(ConstNameSet, v[2]) IN
         IF Cardinality(m) = 1 THEN <<"ok", <<"ref", GinConstSel, <<JoinDots(CHOOSE n \in m : TRUE)>>, "call">>>>
         ELSE IF Cardinality(m) > 1 THEN <<"ValueError", v>>                            \* ambiguous constant
         ELSE <<"ok", <<"ref", GinMacroSel, <<JoinDots(v[2])>>, "call">>>>
    [] Tag(v) \in {"list", "tuple"} ->
         LET rs == [i \in 1..Len(v[2]) |-> ResolveVal(v[2][i])] IN
         IF \E i \in 1..Len(rs) : rs[i][1] # "ok" THEN <<"ValueError", v>>
         ELSE <<"ok", <<Tag(v), [i \in 1..Len(rs) |-> rs[i][2]]>>>>
    [] Tag(v) = "dict" ->
         LET rs == [i \in 1..Len(v[2]) |-> ResolveVal(v[2][i][2])]
             ks == [i \in 1..Len(v[2]) |-> ResolveVal(v[2][i][1])] IN       \* keys are values too
         IF \E i \in 1..Len(rs) : rs[i][1] # "ok" \/ ks[i][1] # "ok" THEN <<"ValueError", v>>
         ELSE <<"ok", <<"dict", [i \in 1..Len(rs) |-> <<ks[i][2], rs[i][2]>>]>>>>
    [] OTHER -> <<"ok", v>>
ResolvePct(v) == ResolveVal(v)

------------------------------------------------------------------------------
(* Actions *)
SameKey(a, b) == a.scope = b.scope /\ a.sel = b.sel /\ a.param = b.param
HasKey(cf, scope, sel, p) == \E i \in 1..Len(cf) : cf[i].scope = scope /\ cf[i].sel = sel /\ cf[i].param = p
\* fn_dict[arg_name] = value (1071-1072): an existing key keeps its position
CfgPut(cf, b) == IF \E i \in 1..Len(cf) : SameKey(cf[i], b)
                 THEN [i \in 1..Len(cf) |-> IF SameKey(cf[i], b) THEN b ELSE cf[i]]
                 ELSE Append(cf, b)
CfgSet == ToSet(cfg)
NoOut == [op |-> "none"]

Init ==
  /\ reg \in InitRegs
  /\ cfg = <<>> /\ stack = << <<>> >> /\ okeys = {} /\ oper = {}
  /\ locked = FALSE /\ usaved = <<>> /\ interactive = FALSE /\ singles = {} /\ consts = {} /\ hooks = <<>> /\ imports = {}
  /\ out = NoOut

\* bind_parameter (1032-1078)
Bind(api, scope, c, p, v) ==
  /\ "Bind" \in Enabled
  /\ c \in reg /\ p \in BindNames(c) /\ BindFilter(scope, c, v)
  /\ IF locked
     THEN /\ out' = [op |-> "Bind", api |-> api, scope |-> scope, sel |-> c.sel, param |-> p, val |-> v,
                       status |-> "RuntimeError", why |-> "locked"]
          /\ UNCHANGED cfg
     ELSE IF BindVerdict(c, p) # "ok"
     THEN /\ out' = [op |-> "Bind", api |-> api, scope |-> scope, sel |-> c.sel, param |-> p, val |-> v,
                       status |-> "ValueError", why |-> BindVerdict(c, p)]
          /\ UNCHANGED cfg
     ELSE IF ResolvePct(v)[1] # "ok"
     THEN /\ out' = [op |-> "Bind", api |-> api, scope |-> scope, sel |-> c.sel, param |-> p, val |-> v,
                       status |-> ResolvePct(v)[1], why |-> "ambiguous-constant"]
          /\ UNCHANGED cfg
     ELSE /\ HasKey(cfg, scope, c.sel, p) \/ Len(cfg) < MaxBindings
          /\ cfg' = CfgPut(cfg, [scope |-> scope, sel |-> c.sel, param |-> p, val |-> ResolvePct(v)[2]])
          /\ out' = [op |-> "Bind", api |-> api, scope |-> scope, sel |-> c.sel, param |-> p, val |-> v,
                       status |-> "ok", why |-> "ok"]
  /\ UNCHANGED <<reg, stack, okeys, oper, locked, usaved, interactive, singles, consts, hooks, imports>>

\* config_scope (1261-1342): how |-> "name" (one or more components appended),
\* "list" (replace), "clear" (None / ''), "invalid" (bad name: pushed, then popped by finally)
EnterScope(how, comps) ==
  /\ "EnterScope" \in Enabled
  /\ Len(stack) < MaxStack
  /\ (how = "name" => Len(comps) \in 1..2)
  /\ (how \in {"clear", "invalid"} => comps = <<>>)
  /\ CASE how = "name"  -> /\ Len(CurScope) + Len(comps) <= MaxScopeDepth
                           /\ stack' = Append(stack, CurScope \o comps)
                           /\ out' = [op |-> "EnterScope", how |-> how, comps |-> comps, status |-> "ok"]
       [] how = "list"  -> /\ stack' = Append(stack, comps)
                           /\ out' = [op |-> "EnterScope", how |-> how, comps |-> comps, status |-> "ok"]
       [] how = "clear" -> /\ stack' = Append(stack, <<>>)
                           /\ out' = [op |-> "EnterScope", how |-> how, comps |-> comps, status |-> "ok"]
       [] how = "invalid" -> /\ UNCHANGED stack                                \* push, raise, finally: pop
                             /\ out' = [op |-> "EnterScope", how |-> how, comps |-> comps, status |-> "ValueError"]
  /\ UNCHANGED <<reg, cfg, okeys, oper, locked, usaved, interactive, singles, consts, hooks, imports>>

\* leaving a block, normally or because the body raised: the finally pops (1341-1342)
ExitScope(byException) ==
  /\ "ExitScope" \in Enabled
  /\ Len(stack) > 1
  /\ stack' = SubSeq(stack, 1, Len(stack) - 1)
  /\ out' = [op |-> "ExitScope", byException |-> byException, status |-> "ok"]
  /\ UNCHANGED <<reg, cfg, okeys, oper, locked, usaved, interactive, singles, consts, hooks, imports>>

\* a configurable is called from Python
\* a method is called on an instance: the class is constructed first (through its configurable, without caller
\* arguments), then the method's own wrapper runs with the instance as first positional argument
ClassOf(c) == ConfBySel(SubSeq(c.sel, 1, Len(c.sel) - 1))
NoArgs == [pargs |-> <<>>, kw |-> {}]
S0 == MkS(okeys, oper, singles, <<>>)
CallBody(c, call) ==
  /\ LET pre == IF IsMethod(c) THEN CallW(cfg, S0, ClassOf(c), CurScope, NoArgs).s ELSE S0
         r   == CallW(cfg, pre, c, CurScope, call) IN
     /\ okeys' = r.s.okeys /\ oper' = r.s.oper /\ singles' = r.s.singles
     /\ out' = [op |-> "Call", sel |-> c.sel, pargs |-> call.pargs, ckw |-> call.kw, status |-> r.status,
                delivered |-> r.delivered, va |-> r.va, kw |-> r.kw,
                missing |-> r.missing, ran |-> r.ran, ret |-> r.ret, evals |-> r.s.evals]
  /\ UNCHANGED <<reg, cfg, stack, locked, usaved, interactive, consts, hooks, imports>>
Call(c, call) ==
  /\ "Call" \in Enabled
  /\ c \in reg /\ call \in CallSpaceOf[c]
  \* a method needs an instance: its class is registered and can be constructed from the configuration alone
  /\ IsMethod(c) => /\ \E k \in reg : k.sel = SubSeq(c.sel, 1, Len(c.sel) - 1)
                     /\ CallW(cfg, S0, ClassOf(c), CurScope, NoArgs).status = "ok"
  /\ CallBody(c, call)

\* clear_config (1004-1029)
Clear(clearConstants) ==
  /\ "Clear" \in Enabled
  /\ cfg' = <<>> /\ okeys' = {} /\ oper' = {} /\ singles' = {} /\ locked' = FALSE /\ imports' = {}
  /\ consts' = IF clearConstants THEN {} ELSE consts
  \* `had`: which stores held something when clear_config was called (observation only)
  /\ out' = [op |-> "Clear", clearConstants |-> clearConstants, status |-> "ok",
             had |-> <<cfg # <<>>, okeys # {}, imports # {}, singles # {}, locked, consts # {}>>]
  /\ UNCHANGED <<reg, stack, usaved, interactive, hooks>>

------------------------------------------------------------------------------
\* the three built-in hooks (2847-2883), evaluated on the configuration as parsed
BuiltinHookVerdict(cf) ==
  LET vals == AllValues(cf)
      macroRefs == { v \in vals : Tag(v) = "ref" /\ v[2] = GinMacroSel }
      keys == { <<cf[i].scope, cf[i].sel>> : i \in 1..Len(cf) }
  IN IF \E r \in macroRefs : <<r[3], GinMacroSel>> \notin keys THEN "ValueError"      \* referenced, never bound
     ELSE IF \E r \in macroRefs : r[4] = "bare" THEN "ValueError"                     \* referenced without ()
     ELSE IF \E v \in vals : Tag(v) = "unk" THEN "ValueError"                         \* unknown configurable
     ELSE IF \E i \in 1..Len(cf) : cf[i].val = <<"ref", GinConstSel, <<"gin.REQUIRED">>, "call">>
          THEN "ValueError"                                                          \* still %gin.REQUIRED
     ELSE "ok"

\* dict-of-dicts iteration order of the store: keys by first insertion, then parameters
KeysInOrder(cf) ==
  LET idx == SelectSeq([i \in 1..Len(cf) |-> i],
                       LAMBDA i : \A j \in 1..(i - 1) : ~(cf[j].scope = cf[i].scope /\ cf[j].sel = cf[i].sel))
  IN [k \in 1..Len(idx) |-> <<cf[idx[k]].scope, cf[idx[k]].sel>>]
NestedOrder(cf) ==
  FlattenSeq([k \in 1..Len(KeysInOrder(cf)) |->
                SelectSeq(cf, LAMBDA b : <<b.scope, b.sel>> = KeysInOrder(cf)[k])])

\* find_missing_overrides_hook (2871-2883) *calls* every top-level constant reference, which leaves a
\* ("name", gin.constant) record in the operative configuration (never printed); it stops at %gin.REQUIRED
ConstRefsEvaluatedByFinalize(cf) ==
  LET no   == NestedOrder(cf)
      refs == SelectSeq(no, LAMBDA b : Tag(b.val) = "ref" /\ b.val[2] = GinConstSel /\ b.val[4] = "call")
      stop == { i \in 1..Len(refs) : refs[i].val[3] = <<"gin.REQUIRED">> }
      upto == IF stop = {} THEN Len(refs) ELSE CHOOSE i \in stop : \A j \in stop : i <= j
  IN { [scope |-> refs[i].val[3], sel |-> GinConstSel] : i \in 1..upto }
MacroAndUnknownVerdict(cf) ==
  LET vals == AllValues(cf)
      macroRefs == { v \in vals : Tag(v) = "ref" /\ v[2] = GinMacroSel }
      keys == { <<cf[i].scope, cf[i].sel>> : i \in 1..Len(cf) }
  IN IF \E r \in macroRefs : <<r[3], GinMacroSel>> \notin keys THEN "ValueError"
     ELSE IF \E r \in macroRefs : r[4] = "bare" THEN "ValueError"
     ELSE IF \E v \in vals : Tag(v) = "unk" THEN "ValueError"
     ELSE "ok"

\* one key returned by a hook: [scope, spelling, param, val] -> verdict and parsed key
HookKeyVerdict(k) ==
  LET r == ResolveConf(k.spelling) IN
  IF r[1] = "none" THEN "ValueError"
  ELSE IF r[1] = "ambiguous" THEN "KeyError"
  ELSE IF BindVerdict(r[2], k.param) # "ok" THEN "ValueError"
  ELSE "ok"
ParsedKey(k) == [scope |-> k.scope, sel |-> ResolveConf(k.spelling)[2].sel, param |-> k.param]

\* finalize (2643-2675): hooks run in order over the configuration as parsed; results are
\* collected keyed by parsed key; application only after every hook has succeeded
RECURSIVE RunHooks(_, _)
RunHooks(hs, acc) ==      \* acc: set of [key, val]; result: <<status, acc>>
  IF hs = <<>> THEN <<"ok", acc>>
  ELSE LET h == Head(hs) IN
       IF h.raises THEN <<"HookError", acc>>
       ELSE IF \E k \in h.rets : HookKeyVerdict(k) # "ok"
            THEN <<HookKeyVerdict(CHOOSE k \in h.rets : HookKeyVerdict(k) # "ok"), acc>>
       ELSE IF \E k \in h.rets : ParsedKey(k) \in { a.key : a \in acc }
            THEN <<"ValueError", acc>>                              \* conflicting updates (2667-2669)
       ELSE RunHooks(Tail(hs), acc \cup { [key |-> ParsedKey(k), val |-> k.val] : k \in h.rets })

RECURSIVE ApplyAll(_, _)
ApplyAll(cf, upd) ==
  IF upd = {} THEN cf
  ELSE LET u == CHOOSE x \in upd : TRUE IN
       ApplyAll(CfgPut(cf, [scope |-> u.key.scope, sel |-> u.key.sel, param |-> u.key.param, val |-> u.val]),
                upd \ {u})

Finalize ==
  /\ "Finalize" \in Enabled
  /\ Len(stack) = 1                         \* outside any config_scope (see DESIGN.md section 8)
  /\ okeys' = IF ~locked /\ MacroAndUnknownVerdict(cfg) = "ok"
               THEN okeys \cup ConstRefsEvaluatedByFinalize(cfg) ELSE okeys
  /\ IF locked
     THEN /\ out' = [op |-> "Finalize", status |-> "RuntimeError"]
          /\ UNCHANGED <<cfg, locked>>
     ELSE IF BuiltinHookVerdict(cfg) # "ok"
     THEN /\ out' = [op |-> "Finalize", status |-> BuiltinHookVerdict(cfg)]
          /\ UNCHANGED <<cfg, locked>>
     ELSE LET r == RunHooks(hooks, {}) IN
          IF r[1] # "ok"
          THEN /\ out' = [op |-> "Finalize", status |-> r[1]]
               /\ UNCHANGED <<cfg, locked>>
          ELSE /\ cfg' = ApplyAll(cfg, r[2])
               /\ locked' = TRUE
               /\ out' = [op |-> "Finalize", status |-> "ok"]
  /\ UNCHANGED <<reg, stack, oper, usaved, interactive, singles, consts, hooks, imports>>

RegisterHook(h) ==
  /\ "RegisterHook" \in Enabled
  /\ h \in HookUniverse /\ \A i \in 1..Len(hooks) : hooks[i].id # h.id
  /\ hooks' = Append(hooks, h)
  /\ out' = [op |-> "RegisterHook", hook |-> h, status |-> "ok"]
  /\ UNCHANGED <<reg, cfg, stack, okeys, oper, locked, usaved, interactive, singles, consts, imports>>

\* unlock_config (2601-2621): the block restores the lock state that held on entry
UnlockEnter ==
  /\ "Unlock" \in Enabled
  /\ Len(usaved) < 2
  /\ usaved' = Append(usaved, locked)
  /\ locked' = FALSE
  /\ out' = [op |-> "UnlockEnter", status |-> "ok"]
  /\ UNCHANGED <<reg, cfg, stack, okeys, oper, interactive, singles, consts, hooks, imports>>

UnlockExit(byException) ==
  /\ "Unlock" \in Enabled
  /\ usaved # <<>>
  /\ locked' = usaved[Len(usaved)]
  /\ usaved' = SubSeq(usaved, 1, Len(usaved) - 1)
  /\ out' = [op |-> "UnlockExit", byException |-> byException, before |-> locked, status |-> "ok"]
  /\ UNCHANGED <<reg, cfg, stack, okeys, oper, interactive, singles, consts, hooks, imports>>

\* registering one more (valid) configurable: the lock comes first (1704-1706), then - for a full name that is
\* already taken by another object - interactive mode decides between rejection and replacement (1719-1725);
\* the full validation order of _make_configurable is GinRegister.tla
Register(c) ==
  /\ "Register" \in Enabled
  /\ c \in FreshConfs /\ c \notin reg
  /\ LET clash == \E e \in reg : e.sel = c.sel IN
     IF locked
     THEN /\ out' = [op |-> "Register", conf |-> c, status |-> "RuntimeError"]
          /\ UNCHANGED reg
     ELSE IF clash /\ ~interactive
     THEN /\ out' = [op |-> "Register", conf |-> c, status |-> "ValueError"]
          /\ UNCHANGED reg
     ELSE /\ reg' = { e \in reg : e.sel # c.sel } \cup {c}
          /\ out' = [op |-> "Register", conf |-> c, status |-> "ok"]
  /\ UNCHANGED <<cfg, stack, okeys, oper, locked, usaved, interactive, singles, consts, hooks, imports>>

\* get_bindings (1401-1442): by spelling, optional explicit scope, strict / inherited scopes, raw or resolved
GetBindings(sp, sc, resolve, inherit) ==
  /\ "GetBindings" \in Enabled
  /\ sp \in QuerySpellings
  /\ LET r == ResolveConf(sp)
         scope == IF sc # <<>> THEN sc ELSE CurScope                      \* 1371-1372, and 1387
         base == [op |-> "GetBindings", spelling |-> sp, scope |-> sc, resolve |-> resolve, inherit |-> inherit]
     IN IF r[1] # "one"
        THEN /\ out' = base @@ [status |-> IF r[1] = "none" THEN "ValueError" ELSE "KeyError", result |-> {}, evals |-> <<>>]
             /\ UNCHANGED <<okeys, oper, singles>>
        ELSE LET kw == IF inherit THEN Overlay(cfg, r[2].sel, scope) ELSE CfgAt(cfg, scope, r[2].sel)
                 ev == IF resolve THEN EvalMap(cfg, MkS(okeys, oper, singles, <<>>), kw, CurScope, {})    \* 1439-1440: deep copy
                       ELSE [s |-> MkS(okeys, oper, singles, <<>>), v |-> OSet(kw), e |-> "ok"]
             IN /\ out' = base @@ [status |-> ev.e, result |-> IF ev.e = "ok" THEN ev.v ELSE {}, evals |-> ev.s.evals]
                /\ okeys' = ev.s.okeys /\ oper' = ev.s.oper /\ singles' = ev.s.singles
  /\ UNCHANGED <<reg, cfg, stack, locked, usaved, interactive, consts, hooks, imports>>

\* a binding made through any spelling of the configurable's name (string key / config text): the spelling is
\* resolved against the registry as it is *now* (923-925); ambiguous spellings raise KeyError (get_match)
BindSp(api, scope, sp, p, v) ==
  /\ "BindSp" \in Enabled
  /\ sp \in QuerySpellings /\ p \in ParamNames /\ v \in BindVals
  /\ LET r == ResolveConf(sp)
         base == [op |-> "Bind", api |-> api, scope |-> scope, spelling |-> sp, param |-> p, val |-> v]
     IN IF locked
        THEN /\ out' = base @@ [sel |-> <<>>, status |-> "RuntimeError", why |-> "locked"] /\ UNCHANGED cfg
        ELSE IF r[1] = "none"
        THEN /\ out' = base @@ [sel |-> <<>>, status |-> "ValueError", why |-> "unknown"] /\ UNCHANGED cfg
        ELSE IF r[1] = "ambiguous"
        THEN /\ out' = base @@ [sel |-> <<>>, status |-> "KeyError", why |-> "ambiguous"] /\ UNCHANGED cfg
        ELSE IF BareMethod(sp)
        THEN /\ out' = base @@ [sel |-> <<>>, status |-> "ValueError", why |-> "method-without-class"] /\ UNCHANGED cfg
        ELSE IF BindVerdict(r[2], p) # "ok"
        THEN /\ out' = base @@ [sel |-> r[2].sel, status |-> "ValueError", why |-> BindVerdict(r[2], p)] /\ UNCHANGED cfg
        ELSE /\ HasKey(cfg, scope, r[2].sel, p) \/ Len(cfg) < MaxBindings
             /\ cfg' = CfgPut(cfg, [scope |-> scope, sel |-> r[2].sel, param |-> p, val |-> v])
             /\ out' = base @@ [sel |-> r[2].sel, status |-> "ok", why |-> "ok"]
  /\ UNCHANGED <<reg, stack, okeys, oper, locked, usaved, interactive, singles, consts, hooks, imports>>

\* query_parameter (1081-1115) by spelling
Query(scope, sp, p) ==
  /\ "Query" \in Enabled
  /\ LET r == ResolveConf(sp) IN
     out' = [op |-> "Query", scope |-> scope, spelling |-> sp, param |-> p,
             status |-> IF r[1] = "none" THEN "ValueError"
                        ELSE IF r[1] = "ambiguous" THEN "KeyError"
                        ELSE IF BareMethod(sp) THEN "ValueError"
                        ELSE IF BindVerdict(r[2], p) # "ok" THEN "ValueError"
                        ELSE IF ~HasKey(cfg, scope, r[2].sel, p) THEN "ValueError"
                        ELSE "ok",
             val |-> IF r[1] = "one" /\ ~BareMethod(sp) /\ HasKey(cfg, scope, r[2].sel, p)
                     THEN cfg[CHOOSE i \in 1..Len(cfg) : cfg[i].scope = scope /\ cfg[i].sel = r[2].sel /\ cfg[i].param = p].val
                     ELSE <<"none">>]
  /\ UNCHANGED <<reg, cfg, stack, okeys, oper, locked, usaved, interactive, singles, consts, hooks, imports>>


------------------------------------------------------------------------------
\* constant (2769-2810)
DefineConstant(name, v, valid) ==
  /\ "DefineConstant" \in Enabled
  /\ name \in ConstNames
  /\ IF ~valid
     THEN /\ out' = [op |-> "DefineConstant", name |-> name, val |-> v, valid |-> valid, status |-> "ValueError"]
          /\ UNCHANGED consts
     ELSE IF ~interactive /\ MatchSet(ConstNameSet, name) # {}
     THEN /\ out' = [op |-> "DefineConstant", name |-> name, val |-> v, valid |-> valid, status |-> "ValueError"]
          /\ UNCHANGED consts
     ELSE /\ consts' = { k \in consts : k.name # name } \cup {[name |-> name, val |-> v]}
          /\ out' = [op |-> "DefineConstant", name |-> name, val |-> v, valid |-> valid, status |-> "ok"]
  /\ UNCHANGED <<reg, cfg, stack, okeys, oper, locked, usaved, interactive, singles, hooks, imports>>

\* query_parameter with the (possibly abbreviated) name of a constant (1142-1148): its value - whatever that value is
QueryConst(name) ==
  /\ "QueryConst" \in Enabled
  /\ name \in ConstQueryNames
  /\ LET m == MatchSet({ k.name : k \in consts }, name) IN
     out' = [op |-> "QueryConst", name |-> name,
             status |-> IF Cardinality(m) = 1 THEN "ok" ELSE "ValueError",      \* none: no such configurable; several: ambiguous
             val |-> IF Cardinality(m) = 1 THEN (CHOOSE k \in consts : k.name \in m).val ELSE <<"none">>]
  /\ UNCHANGED <<reg, cfg, stack, okeys, oper, locked, usaved, interactive, singles, consts, hooks, imports>>

\* a config text consisting of an import statement (2411-2421, 2429-2432): recorded once the parse completes;
\* nothing is bound, so the lock is not consulted
ParseImport(m) ==
  /\ "Import" \in Enabled
  /\ m \in ImportModules
  /\ imports' = imports \cup {m}
  /\ out' = [op |-> "ParseImport", module |-> m, status |-> "ok"]
  /\ UNCHANGED <<reg, cfg, stack, okeys, oper, locked, usaved, interactive, singles, consts, hooks>>

\* config.singleton_value(key, constructor) called directly (2752-2758): the cache is shared with the gin.singleton
\* configurable; an existing key is returned, not rebuilt
SingletonDirect(k) ==
  /\ "SingletonDirect" \in Enabled
  /\ k \in DirectSingletonKeys
  /\ singles' = IF \E x \in singles : x.key = k THEN singles ELSE singles \cup {[key |-> k, obj |-> <<"nonlit", "sd">>]}
  /\ out' = [op |-> "SingletonDirect", key |-> k, fresh |-> ~(\E x \in singles : x.key = k), status |-> "ok"]
  /\ UNCHANGED <<reg, cfg, stack, okeys, oper, locked, usaved, interactive, consts, hooks, imports>>

SetInteractive(on) ==
  /\ "Interactive" \in Enabled
  /\ interactive' = on
  /\ out' = [op |-> "SetInteractive", on |-> on, status |-> "ok"]
  /\ UNCHANGED <<reg, cfg, stack, okeys, oper, locked, usaved, singles, consts, hooks, imports>>


Next ==
  \/ \E api \in BindApis, sc \in ScopePaths, c \in Confs, p \in ParamNames, v \in BindVals : Bind(api, sc, c, p, v)
  \/ \E how \in {"name", "list", "clear", "invalid"}, comps \in ScopePaths : EnterScope(how, comps)
  \/ \E e \in BOOLEAN : ExitScope(e)
  \/ \E c \in Confs, call \in AllCalls : Call(c, call)
  \/ \E cc \in BOOLEAN : Clear(cc)
  \/ \E m \in ImportModules : ParseImport(m)
  \/ \E n \in ConstQueryNames : QueryConst(n)
  \/ \E k \in DirectSingletonKeys : SingletonDirect(k)
  \/ Finalize
  \/ \E h \in HookUniverse : RegisterHook(h)
  \/ UnlockEnter
  \/ \E e \in BOOLEAN : UnlockExit(e)
  \/ \E c \in FreshConfs : Register(c)
  \/ \E n \in ConstNames, v \in ConstVals, ok \in BOOLEAN : DefineConstant(n, v, ok)
  \/ \E on \in BOOLEAN : SetInteractive(on)
  \/ \E sc \in ScopePaths, sp \in QuerySpellings, p \in ParamNames : Query(sc, sp, p)
  \/ \E api \in BindApis, sc \in ScopePaths, sp \in QuerySpellings, p \in ParamNames, v \in BindVals : BindSp(api, sc, sp, p, v)
  \/ \E sp \in QuerySpellings, sc \in ScopePaths, rs \in BOOLEAN, ih \in BOOLEAN : GetBindings(sp, sc, rs, ih)

Spec == Init /\ [][Next]_vars

\* order of bindings is irrelevant when no value holds a reference
ViewUnordered == <<reg, ToSet(cfg), stack, okeys, oper, locked, usaved, interactive, singles, consts, hooks, imports, out>>
\* for invariants that quantify over all calls in a state: only the store and the active scope matter
ViewStore == <<reg, ToSet(cfg), CurScope>>
ViewStoreOrdered == <<reg, cfg, CurScope>>
\* `out` never influences later steps: exhaustive runs that check `out` through action properties drop it
ViewNoOut == <<reg, cfg, stack, okeys, oper, locked, usaved, interactive, singles, consts, hooks, imports>>
ViewNoOutUnordered == <<reg, ToSet(cfg), stack, okeys, oper, locked, usaved, interactive, singles, consts, hooks, imports>>
\* scenario export: the last action's record is part of the view only through what it changed
ViewUnorderedNoOut == <<reg, cfg, stack, locked, usaved, interactive, consts, hooks, out.op>>

------------------------------------------------------------------------------
(* Declarative properties.  They never mention overlays, dict updates or the
   order of the wrapper's steps. *)

\* the binding that applies to (sel, p) under `scope`: the one at the longest prefix
Applicable(cf, sel, p, scope) ==
  { b \in ToSet(cf) : b.sel = sel /\ b.param = p /\ IsPrefix(b.scope, scope) }
Longest(bs) == CHOOSE b \in bs : \A x \in bs : Len(x.scope) <= Len(b.scope)

\* C01: what a successful call must deliver, per named parameter (no REQUIRED markers involved)
C01_ExpectedNamed(c, cf, scope, call, p) ==
  LET args == IF c.kind \in {"cls", "meth"} THEN <<Self>> \o call.pargs ELSE call.pargs
      sa   == SigArgs(c)
      idx  == { i \in 1..Len(sa) : sa[i] = p /\ i <= Len(args) }
  IN IF idx # {} THEN args[CHOOSE i \in idx : TRUE]                 \* caller, positionally
     ELSE IF p \in Dom(call.kw) THEN Get(call.kw, p)               \* caller, by keyword
     ELSE IF Applicable(cf, c.sel, p, scope) # {}
          THEN Longest(Applicable(cf, c.sel, p, scope)).val          \* longest applicable prefix
     ELSE IF HasDefault(c, p) THEN DefaultOf(c, p)                  \* the function's own default
     ELSE <<"MISSING">>

C01_CallIsWellFormed(c, call) ==     \* the caller itself made no Python-level mistake
  LET args == IF c.kind \in {"cls", "meth"} THEN <<Self>> \o call.pargs ELSE call.pargs
      sa   == SigArgs(c)
      posNames == { sa[i] : i \in 1..(IF Len(args) <= Len(sa) THEN Len(args) ELSE Len(sa)) }
  IN /\ (Len(args) > Len(sa) => c.va)
     /\ posNames \cap Dom(call.kw) = {}
     /\ (\A k \in Dom(call.kw) : k \in NamedParams(c) \/ c.vk)

C01_Holds(c, cf, scope, call) ==
  LET r    == CallW(cf, MkS({}, {}, {}, <<>>), c, scope, call)
      args == IF c.kind \in {"cls", "meth"} THEN <<Self>> \o call.pargs ELSE call.pargs
      sa   == SigArgs(c)
      exp  == [p \in NamedParams(c) |-> C01_ExpectedNamed(c, cf, scope, call, p)]
      complete == \A p \in NamedParams(c) : exp[p] # <<"MISSING">>
      extraKwNames == (Dom(call.kw) \cup { b.param : b \in { x \in ToSet(cf) : x.sel = c.sel /\ IsPrefix(x.scope, scope) } })
                      \ NamedParams(c)
  IN IF C01_CallIsWellFormed(c, call) /\ complete
     THEN /\ r.status = "ok"
          /\ \A p \in NamedParams(c) : Get(r.delivered, p) = exp[p]
          /\ Dom(r.delivered) = NamedParams(c)
          \* extra positionals land in *args unchanged and in order
          /\ r.va = (IF Len(args) > Len(sa) THEN SubSeq(args, Len(sa) + 1, Len(args)) ELSE <<>>)
          \* **kwargs: caller keywords plus applicable bindings for names outside the signature
          /\ Dom(r.kw) = extraKwNames
          /\ \A k \in extraKwNames :
               Get(r.kw, k) = (IF k \in Dom(call.kw) THEN Get(call.kw, k)
                               ELSE Longest(Applicable(cf, c.sel, k, scope)).val)
     ELSE r.status = "TypeError" /\ ~r.ran

\* C01 as a state invariant: in every reachable (cfg, stack), for every descriptor and every call split
C01_Deliver ==
  \A c \in reg : \A call \in CallSpace(c, 1, FALSE, {"z"}) : C01_Holds(c, cfg, CurScope, call)

\* bindings under a scope that is not a prefix of the active scope never apply:
\* removing them changes no call's outcome
C01_NoLeak ==
  \A c \in reg : \A call \in CallSpace(c, 1, FALSE, {"z"}) :
    LET relevant == SelectSeq(cfg, LAMBDA b : IsPrefix(b.scope, CurScope))
        a == CallW(cfg, MkS({}, {}, {}, <<>>), c, CurScope, call)
        b == CallW(relevant, MkS({}, {}, {}, <<>>), c, CurScope, call)
    IN a.status = b.status /\ a.delivered = b.delivered /\ a.va = b.va /\ a.kw = b.kw

------------------------------------------------------------------------------
(* C10: REQUIRED parameters *)
C10_Holds(c, cf, scope, call) ==
  LET r      == CallW(cf, MkS({}, {}, {}, <<>>), c, scope, call)
      args   == IF c.kind \in {"cls", "meth"} THEN <<Self>> \o call.pargs ELSE call.pargs
      sa     == SigArgs(c)
      nn     == IF Len(args) <= Len(sa) THEN Len(args) ELSE Len(sa)
      posNames == { sa[i] : i \in 1..nn }
      posReq == { sa[i] : i \in { j \in 1..nn : IsReq(args[j]) } }
      vaReq  == \E i \in (nn + 1)..Len(args) : IsReq(args[i])
      kwReq  == { k \in Dom(call.kw) : IsReq(Get(call.kw, k)) }
      sigReq == { p \in NamedParams(c) : HasDefault(c, p) /\ IsReq(DefaultOf(c, p))
                                         /\ p \notin posNames /\ p \notin Dom(call.kw) }
      R      == posReq \cup kwReq \cup sigReq
      unfilled == { p \in R : Applicable(cf, c.sel, p, scope) = {} }
      expectMissing == SelectSeq(SigOrder(c), LAMBDA p : p \in unfilled)
                       \o SelectSeq(NameOrder, LAMBDA p : p \in unfilled /\ p \notin ToSet(SigOrder(c)))
      given(p) == IF p \in Dom(r.delivered) THEN Get(r.delivered, p) ELSE Get(r.kw, p)
  IN IF vaReq THEN r.status = "ValueError" /\ ~r.ran                       \* not allowed for *args
     ELSE IF unfilled # {}
     THEN r.status = "RuntimeError" /\ ~r.ran /\ r.missing = expectMissing   \* fails before the body
     ELSE /\ r.status \in {"ok", "TypeError"}
          /\ r.status = "ok" =>
               /\ \A p \in R : given(p) = Longest(Applicable(cf, c.sel, p, scope)).val
               /\ \A e \in r.delivered \cup r.kw : ~IsReq(e[2])              \* the marker never leaks
               /\ \A i \in 1..Len(r.va) : ~IsReq(r.va[i])

C10_Required ==
  \* (for a function decorated before registration Gin cannot name the positional arguments: see Outer)
  \A c \in { x \in reg : ~x.deco } : \A call \in CallSpace(c, 1, TRUE, {"z"}) :
     C01_CallIsWellFormed(c, call) => C10_Holds(c, cfg, CurScope, call)

\* a signature-level REQUIRED on a denylisted / not allowlisted parameter is rejected at
\* registration (1195-1210): no such descriptor is ever in the registry
C10_RegisterReject ==
  \A c \in reg : \A d \in c.dflt : IsReq(d[2]) => Allowed(c, d[1])

------------------------------------------------------------------------------
(* C11: only configurable parameters of registered configurables can be bound *)
C11_StoreValid ==
  \A i \in 1..Len(cfg) :
    /\ \E c \in reg : c.sel = cfg[i].sel
    /\ LET c == ConfBySel(cfg[i].sel) IN MightHave(c, cfg[i].param) /\ Allowed(c, cfg[i].param)

C11_Accept ==
  out.op = "Bind" /\ ~locked =>
    LET c == ConfBySel(out.sel) IN
    (out.status = "ok") <=> (MightHave(c, out.param) /\ Allowed(c, out.param))

\* a rejected binding leaves the configuration exactly as it was
C11_Atomic ==
  [][(out'.op = "Bind" /\ out'.status # "ok") =>
       UNCHANGED <<reg, cfg, stack, okeys, oper, locked, usaved, interactive, singles, consts, hooks, imports>>]_vars

\* a non-configurable parameter is never injected: whatever it receives is the caller's or the default
C11_NeverInjected ==
  \A c \in reg : \A call \in CallSpace(c, 0, FALSE, {}) :
    LET r == CallW(cfg, MkS({}, {}, {}, <<>>), c, CurScope, call) IN
    r.status = "ok" =>
      \A p \in NamedParams(c) : ~Allowed(c, p) =>
         Get(r.delivered, p) = C01_ExpectedNamed(c, <<>>, CurScope, call, p)

------------------------------------------------------------------------------
(* C12: the lock *)
Mutating(o) == o.op \in {"Bind", "Register"}

\* while locked every mutating call raises and changes nothing
C12_Guard ==
  [][(locked /\ Mutating(out')) => (out'.status = "RuntimeError" /\ cfg' = cfg /\ reg' = reg /\ locked' = locked)]_vars

\* leaving an unlock_config block by either path restores the state saved on entry
C12_UnlockRestores ==
  [][(out'.op = "UnlockExit") => (locked' = usaved[Len(usaved)] /\ Len(usaved') = Len(usaved) - 1)]_vars

\* a rejected finalize leaves the configuration unmodified and its lock state unchanged
C12_FinalizeAtomic ==
  [][(out'.op = "Finalize" /\ out'.status # "ok") => (cfg' = cfg /\ locked' = locked)]_vars

C12_FinalizeLocks ==
  [][(out'.op = "Finalize" /\ out'.status = "ok") => (~locked /\ locked')]_vars

C12_Twice ==
  [][(out'.op = "Finalize" /\ locked) => out'.status = "RuntimeError"]_vars

\* two hooks updating one parameter are rejected however each spells it
C12_Conflict ==
  [][(out'.op = "Finalize" /\ out'.status = "ok") =>
       \A i, j \in 1..Len(hooks) : i # j =>
          \A a \in hooks[i].rets, b \in hooks[j].rets :
             ~(HookKeyVerdict(a) = "ok" /\ HookKeyVerdict(b) = "ok" /\ ParsedKey(a) = ParsedKey(b))]_vars

\* the store never holds what finalize rejects once it is locked by finalize
C12_LockedIsValidated ==
  (out.op = "Finalize" /\ out.status = "ok") => BuiltinHookVerdict(cfg) = "ok"

------------------------------------------------------------------------------
(* C20: clear_config *)
C20_Pristine ==
  out.op = "Clear" =>
    /\ out.status = "ok"
    /\ cfg = <<>> /\ okeys = {} /\ oper = {} /\ singles = {} /\ ~locked /\ imports = {}
    /\ (out.clearConstants => consts = {})

C20_KeepsRegistryAndConstants ==
  [][(out'.op = "Clear") => (reg' = reg /\ (~out'.clearConstants => consts' = consts))]_vars

\* clear_config() is possible in every reachable state
C20_Succeeds == \A cc \in BOOLEAN : ("Clear" \in Enabled) => ENABLED Clear(cc)

\* C18 (sequential half): at most one cached object per singleton key, and it is the only one handed out
C18_SingletonOnce ==
  /\ \A a, b \in singles : a.key = b.key => a = b
  /\ (out.op = "Clear" => singles = {})

------------------------------------------------------------------------------
(* C09 (sequential half): scopes nest and are restored on every exit path *)
C09_StackShape == Len(stack) >= 1 /\ stack[1] = <<>>

C09_Compose ==
  [][(out'.op = "EnterScope" /\ out'.status = "ok") =>
       /\ Len(stack') = Len(stack) + 1
       /\ SubSeq(stack', 1, Len(stack)) = stack
       /\ CurScope' = (CASE out'.how = "name" -> CurScope \o out'.comps
                         [] out'.how = "list" -> out'.comps
                         [] OTHER -> <<>>)]_vars

\* an invalid entry leaves the stack as it was; any exit restores the previous active scope
C09_Restore ==
  [][/\ (out'.op = "EnterScope" /\ out'.status # "ok") => stack' = stack
     /\ (out'.op = "ExitScope") => (stack' = SubSeq(stack, 1, Len(stack) - 1))
     /\ (out'.op \notin {"EnterScope", "ExitScope"}) => stack' = stack]_vars

------------------------------------------------------------------------------
(* C04: references *)
RECURSIVE RefOccs(_)
\* evaluated references inside a value, with multiplicity, in the order a deep copy meets them
RefOccs(v) ==
  CASE Tag(v) = "ref" -> IF v[4] = "call" THEN <<v>> ELSE <<>>
    [] Tag(v) \in {"list", "tuple"} -> FlattenSeq([i \in 1..Len(v[2]) |-> RefOccs(v[2][i])])
    [] Tag(v) = "dict" -> FlattenSeq([i \in 1..Len(v[2]) |-> RefOccs(v[2][i][1]) \o RefOccs(v[2][i][2])])
    [] OTHER -> <<>>

\* who must be invoked, under which scope, when `c` is called under `scope` with the caller
\* supplying `supplied`: one entry per occurrence of an evaluated reference in a Gin-supplied
\* parameter (recursively through the producers' own bindings), then c itself
RECURSIVE ExpEvals(_, _, _, _)
ExpEvals(cf, c, scope, supplied) ==
  LET kw == ODelAll(Overlay(cf, c.sel, scope), supplied)
      perParam == [i \in 1..Len(kw) |->
                     LET occ == RefOccs(kw[i][2]) IN
                     FlattenSeq([j \in 1..Len(occ) |->
                        ExpEvals(cf, ConfBySel(occ[j][2]), IF occ[j][3] # <<>> THEN occ[j][3] ELSE scope, {})])]
  IN FlattenSeq(perParam) \o (IF c.body = "record" THEN << <<c.sel, scope>> >> ELSE <<>>)

SuppliedNames(c, call) ==
  LET args == IF c.kind \in {"cls", "meth"} THEN <<Self>> \o call.pargs ELSE call.pargs
      sa   == SigArgs(c)
  IN { sa[i] : i \in 1..(IF Len(args) <= Len(sa) THEN Len(args) ELSE Len(sa)) } \cup Dom(call.kw)

C04_HoldsFor(c, call) ==
  LET r == CallW(cfg, MkS({}, {}, {}, <<>>), c, CurScope, call) IN
  r.status = "ok" =>
    /\ [i \in 1..Len(r.s.evals) |-> <<r.s.evals[i].sel, r.s.evals[i].scope>>]
         = ExpEvals(cfg, c, CurScope, SuppliedNames(c, call))                 \* count and scope
    /\ \A e \in r.delivered :                                                  \* bare references
         LET app == Applicable(cfg, c.sel, e[1], CurScope) IN
         (e[1] \notin SuppliedNames(c, call) /\ app # {} /\ Tag(Longest(app).val) = "ref"
            /\ Longest(app).val[4] = "bare")
           => e[2] = <<"fnref", Longest(app).val[2], Longest(app).val[3]>>

C04_Refs == \A c \in reg : c.body = "record" => \A call \in CallSpace(c, 0, FALSE, {}) : C04_HoldsFor(c, call)

------------------------------------------------------------------------------
(* C05: macros and constants are late-bound named values *)
\* what %name must deliver now: the value most recently bound to the macro (the store holds
\* exactly the most recent binding of every key), a constant's own object, ...
C05_HoldsFor(c, call) ==
  LET r == CallW(cfg, MkS({}, {}, {}, <<>>), c, CurScope, call) IN
  r.status = "ok" =>
    \A e \in r.delivered :
      LET app == Applicable(cfg, c.sel, e[1], CurScope)
          v   == Longest(app).val
      IN (e[1] \notin SuppliedNames(c, call) /\ app # {} /\ Tag(v) = "ref" /\ v[4] = "call") =>
           /\ (v[2] = GinConstSel =>                                   \* that very object
                 \/ (v[3] = <<"gin.REQUIRED">> /\ e[2] = Req)
                 \/ \E k \in consts : <<JoinDots(k.name)>> = v[3] /\ e[2] = k.val)
           /\ (v[2] = GinMacroSel =>
                 LET mb == Applicable(cfg, GinMacroSel, "value", v[3]) IN
                 /\ mb # {}                                              \* a successful use implies a binding
                 /\ (Tag(Longest(mb).val) \in {"lit", "nonlit"} => e[2] = Longest(mb).val))

C05_Macros == \A c \in reg : c.body = "record" => \A call \in CallSpace(c, 0, FALSE, {}) : C05_HoldsFor(c, call)

\* a %name use resolves to a constant iff, when it was parsed, it was an unambiguous dotted suffix
\* (or the complete name) of a defined constant; ambiguous abbreviations are errors
C05_Resolve ==
  out.op = "Bind" /\ Tag(out.val) = "pct" /\ out.why \in {"ok", "ambiguous-constant"} =>
    LET K == ConstNameSet
        D == IF out.val[2] \in K THEN {out.val[2]} ELSE { n \in K : SuffixOf(out.val[2], n) }
    IN /\ (out.status = "ok") <=> (Cardinality(D) <= 1)
       /\ (out.status = "ok" /\ Cardinality(D) = 1) =>
             \E i \in 1..Len(cfg) : cfg[i].val = <<"ref", GinConstSel, <<JoinDots(CHOOSE n \in D : TRUE)>>, "call">>

\* duplicate / invalid constant definitions are errors outside interactive mode
C05_ConstDefine ==
  [][(out'.op = "DefineConstant") =>
       LET clash == MatchSet(ConstNameSet, out'.name) # {} IN
       /\ (out'.status = "ok") <=> (out'.valid /\ (interactive \/ ~clash))
       /\ (out'.status # "ok") => consts' = consts]_vars

\* finalize rejects macros that are referenced but never bound or referenced without being evaluated
C05_Finalize ==
  [][(out'.op = "Finalize" /\ out'.status = "ok") =>
       \A v \in AllValues(cfg) :
         (Tag(v) = "ref" /\ v[2] = GinMacroSel) =>
            /\ v[4] = "call"
            /\ \E i \in 1..Len(cfg) : cfg[i].sel = GinMacroSel /\ cfg[i].scope = v[3]]_vars

------------------------------------------------------------------------------
(* C07: the operative record *)
OperAt(op, scope, sel, p) == { r \in op : r.scope = scope /\ r.sel = sel /\ r.param = p }

\* after a successful top-level call of a probe: every parameter Gin supplied (binding or literal
\* default of a configurable parameter) is recorded with the value used; parameters the caller
\* supplied keep whatever earlier calls recorded; the called pair has a section
C07_StepHolds(c, call, okB, opB, okA, opA) ==
  LET sn == SuppliedNames(c, call)
      names == NamedParams(c) \cup { cfg[i].param : i \in { j \in 1..Len(cfg) : cfg[j].sel = c.sel } }
  IN /\ [scope |-> CurScope, sel |-> c.sel] \in okA
     /\ okB \subseteq okA /\ \A r \in opB : \E q \in opA : q.scope = r.scope /\ q.sel = r.sel /\ q.param = r.param
     /\ \A p \in names :
          LET app == Applicable(cfg, c.sel, p, CurScope)
              sup == IF app # {} THEN <<TRUE, Longest(app).val>>
                     ELSE IF HasDefault(c, p) /\ Allowed(c, p) /\ Representable(DefaultOf(c, p))
                          THEN <<TRUE, DefaultOf(c, p)>> ELSE <<FALSE>>
          IN IF p \notin sn /\ sup[1]
             THEN OperAt(opA, CurScope, c.sel, p) = {[scope |-> CurScope, sel |-> c.sel, param |-> p, val |-> sup[2]]}
             ELSE OperAt(opA, CurScope, c.sel, p) = OperAt(opB, CurScope, c.sel, p)

C07_Step ==
  [][(out'.op = "Call" /\ out'.status = "ok" /\ ConfBySel(out'.sel).body = "record") =>
        C07_StepHolds(ConfBySel(out'.sel), [pargs |-> out'.pargs, kw |-> out'.ckw], okeys, oper, okeys', oper')]_vars

\* sections exist only for pairs that were invoked: every new key comes from this step's evaluation log
\* (probes) or is a macro / constant / singleton lookup
C07_Sections ==
  [][(out'.op = "Call") =>
        \A k \in okeys' \ okeys :
           \/ \E i \in 1..Len(out'.evals) : out'.evals[i].sel = k.sel /\ out'.evals[i].scope = k.scope
           \/ k.sel[1] = "gin"
           \/ out'.status # "ok"]_vars

\* never-called configurables and non-configurable parameters never appear
C07_Never ==
  \A r \in oper :
    /\ [scope |-> r.scope, sel |-> r.sel] \in okeys
    /\ LET c == ConfBySel(r.sel) IN Allowed(c, r.param) /\ MightHave(c, r.param)

------------------------------------------------------------------------------
(* C06: the config string, at the level of statements.  Text layout (wrapping, quoting, ordering of
   sections) is not modelled; it is exercised on the real text by the conformance harness. *)
ProperSuffixesOf(n) == { SubSeq(n, i, Len(n)) : i \in 1..Len(n) }
\* the shortest spelling that resolves to n (what SelectorMap.minimal_selector reports; C08_Minimal)
MinimalSpelling(n) ==
  LET ok == { s \in ProperSuffixesOf(n) : MatchSet(RegSels, s) = {n} }
      m  == CHOOSE s \in ok : \A t \in ok : Len(s) <= Len(t)
  IN \* 2121-2125: a method is written with (at least) its class name
     IF IsMethod(ConfBySel(n)) /\ Len(m) = 1 THEN SubSeq(n, Len(n) - 1, Len(n)) ELSE m

\* one emitted statement per representable binding; macros are written as `name = value`
Serialize(cf) ==
  { [scope |-> b.scope,
     spelling |-> IF b.sel = GinMacroSel THEN <<>> ELSE MinimalSpelling(b.sel),
     sel |-> b.sel, param |-> b.param, val |-> b.val] :
      b \in { x \in ToSet(cf) : Representable(x.val) /\ x.sel # GinConstSel } }

\* parsing the emitted statements into a cleared configuration restores exactly the representable bindings:
\* every emitted spelling resolves, uniquely, to the configurable it was written for, and the binding is accepted
C06_RoundTrip ==
  \A st \in Serialize(cfg) :
    \/ st.sel = GinMacroSel
    \/ /\ ResolveConf(st.spelling) = <<"one", ConfBySel(st.sel)>>
       /\ ~BareMethod(st.spelling)
       /\ BindVerdict(ConfBySel(st.sel), st.param) = "ok"

\* values without a literal form are omitted, everything else is emitted
C06_Omits ==
  /\ \A st \in Serialize(cfg) : Representable(st.val)
  /\ \A i \in 1..Len(cfg) : (Representable(cfg[i].val) /\ cfg[i].sel # GinConstSel) =>
        \E st \in Serialize(cfg) : st.scope = cfg[i].scope /\ st.sel = cfg[i].sel /\ st.param = cfg[i].param

------------------------------------------------------------------------------
(* C08 (API half): every unambiguous spelling of one parameter is the same key *)
C08_SameKey ==
  [][(out'.op = "Query" /\ out'.status = "ok") =>
       \E i \in 1..Len(cfg) : cfg[i].scope = out'.scope /\ cfg[i].param = out'.param /\ cfg[i].val = out'.val
                              /\ ResolveConf(out'.spelling) = <<"one", ConfBySel(cfg[i].sel)>>]_vars
\* an ambiguous or unknown spelling never reads or writes anything
C08_AmbiguousRejected ==
  [][(out'.op \in {"Bind", "Query"} /\ "spelling" \in DOMAIN out' /\ ResolveConf(out'.spelling)[1] # "one") =>
       (out'.status \in {"KeyError", "ValueError", "RuntimeError"} /\ cfg' = cfg)]_vars

------------------------------------------------------------------------------
(* get_bindings agrees with what a call would be given (C01 / C04 seen through the query API) *)
GetBindingsAgrees ==
  [][(out'.op = "GetBindings" /\ out'.status = "ok" /\ out'.inherit /\ ~out'.resolve) =>
       LET c == ResolveConf(out'.spelling)[2]
           scope == IF out'.scope # <<>> THEN out'.scope ELSE CurScope
       IN /\ \A e \in out'.result : Applicable(cfg, c.sel, e[1], scope) # {} /\ e[2] = Longest(Applicable(cfg, c.sel, e[1], scope)).val
          /\ \A i \in 1..Len(cfg) : (cfg[i].sel = c.sel /\ IsPrefix(cfg[i].scope, scope)) => cfg[i].param \in Dom(out'.result)]_vars

------------------------------------------------------------------------------
(* state predicates over `out`, as action properties (so that VIEWs may drop `out`) *)
C05_ResolveA == [][C05_Resolve']_vars
C11_AcceptA == [][C11_Accept']_vars
C12_LockedIsValidatedA == [][C12_LockedIsValidated']_vars
C20_PristineA == [][C20_Pristine']_vars

=============================================================================
