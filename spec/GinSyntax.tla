----------------------------- MODULE GinSyntax -----------------------------
(***************************************************************************)
(* gin/config_parser.py at the level of tokens: the recursive-descent      *)
(* value parser (parse_value, _maybe_parse_container, _parse_dict_item,    *)
(* _maybe_parse_basic_type, _maybe_parse_configurable_reference,           *)
(* _maybe_parse_macro), transcribed as recursive operators over a cursor,  *)
(* and an independent split-based reference grammar Den for the literal    *)
(* values of property C02.  TLC grows the token string one token per step  *)
(* and checks in every state that the cursor parser accepts exactly the    *)
(* strings of the grammar, with exactly the grammar's (unique) value, and  *)
(* rejects everything else.                                                *)
(*                                                                          *)
(* Tokens are abstract kinds (what matters to the parser):                 *)
(*   "n" NUMBER   "s" non-empty str   "e" empty str   "y" bytes            *)
(*   "k" NAME True/False/None   "x" any other NAME                         *)
(*   "-" "[" "]" "(" ")" "{" "}" "," ":" "@" "%"   operators               *)
(*   "nl" an NL or COMMENT token (only occurs inside brackets)             *)
(* Position Len+1 is the end of the statement (NEWLINE / ENDMARKER).       *)
(* Values are shapes: <<"num">> <<"neg">> <<"const">> <<"str", kinds>>     *)
(* <<"bytes", kinds>> <<"list", vs>> <<"tuple", vs>> <<"dict", kvs>>       *)
(* <<"ref", called>> <<"macro">>.                                           *)
(***************************************************************************)
EXTENDS Naturals, Sequences, FiniteSets, SequencesExt, TLC

CONSTANTS Alphabet,   \* token kinds explored
          MaxLen      \* longest token string

VARIABLE toks
vars == <<toks>>

StrKinds == {"s", "e", "y"}
BasicKinds == {"n", "s", "e", "y", "k", "x"}
Opens == {"[", "(", "{"}
Closes == {"]", ")", "}"}
CloseOf(o) == CASE o = "[" -> "]" [] o = "(" -> ")" [] o = "{" -> "}"
END == "END"

------------------------------------------------------------------------------
(* The cursor parser.  T: token sequence; i: cursor.  Results:
   <<"ok", value, next>>  |  <<"err">>  |  <<"no">> (a maybe-parser that does not apply) *)
At(T, i) == IF i <= Len(T) THEN T[i] ELSE END

RECURSIVE SkipNl(_, _)
SkipNl(T, i) == IF At(T, i) = "nl" THEN SkipNl(T, i + 1) ELSE i      \* _skip_whitespace_and_comments
Adv(T, i) == SkipNl(T, i + 1)                                        \* _advance (314-316)

Err == <<"err">>
No == <<"no">>

RECURSIVE PValue(_, _), PContainer(_, _), PItems(_, _, _, _, _), PBasic(_, _), PStrings(_, _, _, _)

\* _maybe_parse_basic_type (510-537), after the fixes of F9 / F10
PStrings(T, j, cls, acc) ==      \* j at a STRING token already known to be compatible; accumulates adjacent literals
  LET acc2 == Append(acc, T[j])
      j2   == Adv(T, j)
  IN IF At(T, j2) \in StrKinds
     THEN IF (At(T, j2) = "y") = (cls = "bytes")
          THEN PStrings(T, j2, cls, acc2)
          ELSE Err                                                     \* str next to bytes: literal_eval fails
     ELSE <<"ok", <<cls, acc2>>, j2>>

PBasic(T, i) ==
  LET neg == At(T, i) = "-"
      j   == IF neg THEN Adv(T, i) ELSE i
      t   == At(T, j)
  IN IF t \notin BasicKinds THEN (IF neg THEN Err ELSE No)            \* a consumed '-' is an error (F10)
     ELSE CASE t = "n" -> <<"ok", IF neg THEN <<"neg">> ELSE <<"num">>, Adv(T, j)>>
            [] t = "x" -> Err                                           \* a bare name is no literal
            [] t = "k" -> IF neg THEN Err ELSE <<"ok", <<"const">>, Adv(T, j)>>
            [] t \in StrKinds -> IF neg THEN Err
                                 ELSE PStrings(T, j, IF t = "y" THEN "bytes" ELSE "str", <<>>)

\* _maybe_parse_configurable_reference (539-560): '@' NAME [ '(' ')' ]
PRef(T, i) ==
  IF At(T, i) # "@" THEN No
  ELSE LET j == i + 1 IN                                               \* _advance_one_token: nothing skipped
       IF At(T, j) \notin {"x", "k"} THEN Err
       ELSE LET j2 == SkipNl(T, j + 1) IN
            IF At(T, j2) = "("
            THEN LET j3 == Adv(T, j2) IN
                 IF At(T, j3) # ")" THEN Err
                 ELSE <<"ok", <<"ref", TRUE>>, SkipNl(T, j3 + 1)>>
            ELSE <<"ok", <<"ref", FALSE>>, j2>>

\* _maybe_parse_macro (562-574): '%' NAME
PMacro(T, i) ==
  IF At(T, i) # "%" THEN No
  ELSE IF At(T, i + 1) \notin {"x", "k"} THEN Err
  ELSE <<"ok", <<"macro">>, SkipNl(T, i + 2)>>

\* _parse_dict_item (350-356)
PDictItem(T, j) ==
  LET k == PValue(T, j) IN
  IF k[1] # "ok" THEN Err
  ELSE IF At(T, k[3]) # ":" THEN Err
  ELSE LET v == PValue(T, Adv(T, k[3])) IN
       IF v[1] # "ok" THEN Err ELSE <<"ok", <<k[2], v[2]>>, v[3]>>

\* the item loop of _maybe_parse_container (490-498)
PItems(T, j, open, acc, sawComma) ==
  IF At(T, j) = CloseOf(open)
  THEN LET nxt == Adv(T, j) IN                                         \* 505
       IF open = "(" /\ Len(acc) = 1 /\ ~sawComma THEN <<"ok", acc[1], nxt>>     \* 502-503: just parentheses
       ELSE <<"ok", <<CASE open = "[" -> "list" [] open = "(" -> "tuple" [] open = "{" -> "dict", acc>>, nxt>>
  ELSE LET it == IF open = "{" THEN PDictItem(T, j) ELSE PValue(T, j) IN
       IF it[1] # "ok" THEN Err
       ELSE IF At(T, it[3]) = "," THEN PItems(T, Adv(T, it[3]), open, Append(acc, it[2]), TRUE)
       ELSE IF At(T, it[3]) # CloseOf(open) THEN Err                  \* "Expected ',' or ']'"
       ELSE PItems(T, it[3], open, Append(acc, it[2]), sawComma)

PContainer(T, i) ==
  IF At(T, i) \notin Opens THEN No
  ELSE PItems(T, Adv(T, i), At(T, i), <<>>, FALSE)

\* parse_value (269-283): container, basic, reference, macro - in this order
PValue(T, i) ==
  LET c == PContainer(T, i) IN
  IF c # No THEN c
  ELSE LET b == PBasic(T, i) IN
       IF b # No THEN b
       ELSE LET r == PRef(T, i) IN
            IF r # No THEN r
            ELSE LET m == PMacro(T, i) IN
                 IF m # No THEN m ELSE Err                              \* "Unable to parse value."

\* `sel.param = <tokens>`: the value, then the end-of-statement check (258-262)
ParseStmt(T) ==
  LET v == PValue(T, 1) IN
  IF v[1] # "ok" THEN Err
  ELSE IF v[3] # Len(T) + 1 THEN Err                                    \* "Expected newline."
  ELSE <<"ok", v[2]>>

------------------------------------------------------------------------------
(* The reference grammar: which token strings are literal values (plus references and macros),
   and which value each denotes.  Stated over the string with layout tokens removed, by
   existential splitting; it never mentions a cursor. *)
Strip(T) == SelectSeq(T, LAMBDA t : t # "nl")

RECURSIVE Den(_, _, _), DenItems(_, _, _, _), DenTail(_, _, _, _)

\* values denoted by S[a..b-1]
Den(S, a, b) ==
  IF a >= b THEN {}
  ELSE
  LET n == b - a
      one(kind) == n = 1 /\ S[a] = kind
      strs == \A i \in a..(b - 1) : S[i] \in {"s", "e"}
      byts == \A i \in a..(b - 1) : S[i] = "y"
      inner(kind) ==                                                   \* item sequences between the brackets
        IF n = 2 THEN {<<>>} ELSE DenItems(S, a + 1, b - 1, kind)
  IN (IF one("n") THEN {<<"num">>} ELSE {})
     \cup (IF n = 2 /\ S[a] = "-" /\ S[a + 1] = "n" THEN {<<"neg">>} ELSE {})
     \cup (IF one("k") THEN {<<"const">>} ELSE {})
     \cup (IF strs THEN {<<"str", SubSeq(S, a, b - 1)>>} ELSE {})
     \cup (IF byts THEN {<<"bytes", SubSeq(S, a, b - 1)>>} ELSE {})
     \cup (IF n = 2 /\ S[a] = "@" /\ S[a + 1] \in {"x", "k"} THEN {<<"ref", FALSE>>} ELSE {})
     \cup (IF n = 4 /\ S[a] = "@" /\ S[a + 1] \in {"x", "k"} /\ S[a + 2] = "(" /\ S[a + 3] = ")" THEN {<<"ref", TRUE>>} ELSE {})
     \cup (IF n = 2 /\ S[a] = "%" /\ S[a + 1] \in {"x", "k"} THEN {<<"macro">>} ELSE {})
     \cup (IF n >= 2 /\ S[a] = "[" /\ S[b - 1] = "]" THEN { <<"list", its>> : its \in inner("v") } ELSE {})
     \cup (IF n >= 2 /\ S[a] = "{" /\ S[b - 1] = "}" THEN { <<"dict", its>> : its \in inner("kv") } ELSE {})
     \cup (IF n >= 2 /\ S[a] = "(" /\ S[b - 1] = ")"
           THEN \* a tuple needs a comma (or to be empty); one value without comma is just that value
                (IF n = 2 THEN {<<"tuple", <<>>>>} ELSE {})
                \cup { <<"tuple", its>> : its \in { x \in DenItems(S, a + 1, b - 1, "v") :
                                                      Len(x) >= 2 \/ S[b - 2] = "," } }
                \cup (IF n > 2 THEN Den(S, a + 1, b - 1) ELSE {})
           ELSE {})

\* one item starting at a, then the tail
DenItems(S, a, b, kind) ==
  UNION { IF kind = "v"
          THEN UNION { { <<v>> \o rest : rest \in DenTail(S, c, b, kind) } : v \in Den(S, a, c) }
          ELSE UNION { UNION { UNION { { << <<kk, vv>> >> \o rest : rest \in DenTail(S, c, b, kind) }
                                        : vv \in Den(S, d + 1, c) } : kk \in Den(S, a, d) }
                       : d \in { x \in (a + 1)..(c - 2) : S[x] = ":" } }
          : c \in (a + 1)..b }

\* after an item ending at c: nothing, a trailing comma, or a comma and more items
DenTail(S, c, b, kind) ==
  IF c = b THEN {<<>>}
  ELSE IF S[c] # "," THEN {}
  ELSE IF c + 1 = b THEN {<<>>}
  ELSE DenItems(S, c + 1, b, kind)

DenStmt(T) == LET S == Strip(T) IN Den(S, 1, Len(S) + 1)

------------------------------------------------------------------------------
Depth(T) == Cardinality({ i \in 1..Len(T) : T[i] \in Opens }) - Cardinality({ i \in 1..Len(T) : T[i] \in Closes })
RECURSIVE MinDepthOK(_, _, _)
MinDepthOK(T, i, d) == IF i > Len(T) THEN TRUE
                       ELSE LET d2 == IF T[i] \in Opens THEN d + 1 ELSE IF T[i] \in Closes THEN d - 1 ELSE d
                            IN d2 >= 0 /\ MinDepthOK(T, i + 1, d2)

Init == toks = <<>>
Next == /\ Len(toks) < MaxLen
        /\ \E t \in Alphabet :
             /\ (t = "nl" => Depth(toks) > 0 /\ MinDepthOK(toks, 1, 0))    \* the tokenizer emits NL only inside brackets
             /\ toks' = Append(toks, t)
Spec == Init /\ [][Next]_vars

\* layout directly after '@' / '%' is the one place where gin is stricter than the stripped grammar
NlAfterSigil(T) == \E i \in 1..(Len(T) - 1) : T[i] \in {"@", "%"} /\ T[i + 1] = "nl"

C02_Agree ==
  LET p == ParseStmt(toks)
      D == DenStmt(toks)
  IN /\ Cardinality(D) <= 1                                             \* the grammar is unambiguous
     /\ IF NlAfterSigil(toks) THEN p = Err
        ELSE /\ (p[1] = "ok") <=> (D # {})
             /\ p[1] = "ok" => D = {p[2]}

\* layout inside brackets never changes the value
C02_Layout ==
  ~NlAfterSigil(toks) => ParseStmt(toks) = ParseStmt(Strip(toks))
\* non-vacuity control: must be violated (the parser does accept a one-tuple)
NoOneTuple == ParseStmt(toks) # <<"ok", <<"tuple", << <<"num">> >> >> >>
=============================================================================
