SPECIFICATION Spec
CONSTANTS
  Known <- KnownSet
  Modules = {"gvmod_ok"}
  Templates <- Tpl
  FileNames <- Files3
  MaxPerFile <- Max3T
  SkipForms <- Skips
  Locations <- Locs
  Readers <- Rdrs
  PresentChoices <- Presents





CONSTRAINT ExportAll
CHECK_DEADLOCK FALSE
