SPECIFICATION Spec
CONSTANTS
  Known <- KnownSet
  Ambiguous <- Amb
  Modules = {"gvmod_ok"}
  Templates <- Tpl
  FileNames <- Files3
  MaxPerFile <- Max3T
  SkipForms <- Skips
  RegLogs <- RegLogs1
  EntryForms <- Entries
  EntryBinding <- EntryB
  Readers <- Rdrs
  PresentChoices <- Presents





CONSTRAINT ExportAll
CHECK_DEADLOCK FALSE
