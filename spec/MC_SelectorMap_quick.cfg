SPECIFICATION Spec
CONSTANTS
  Names <- XNames
  Queries <- XQueries
  Handles = {"h1","h2"}
  FirstHandle = "h1"
  Values = {1}
  DevMinimalRoot = FALSE
INVARIANT C08_TreeIsMap
INVARIANT C08_Matching
INVARIANT C08_GetMatch
INVARIANT C08_Minimal
CHECK_DEADLOCK FALSE
