SPECIFICATION Spec
CONSTANTS
  Known <- KnownSet
  Ambiguous <- Amb
  Modules = {"gvmod_ok"}
  Templates <- TplDiamond
  FileNames <- Files3
  MaxPerFile <- MaxDiamond
  SkipForms <- SkipFalse
  RegLogs <- RegLogs1
  EntryForms <- Entries
  EntryBinding <- EntryB
  Readers <- Rdrs
  PresentChoices <- Presents1
CONSTRAINT ExportAll
INVARIANT C14_C16_Flatten
CHECK_DEADLOCK FALSE
