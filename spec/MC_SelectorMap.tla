------------------------- MODULE MC_SelectorMap -------------------------
EXTENDS SelectorMap

\* quick universe: 8 names chosen so that names are suffixes of other names,
\* single chains occur, and siblings occur at every depth
QNames == { <<"c">>, <<"b","c">>, <<"a","b","c">>, <<"a","c">>,
            <<"b">>, <<"c","b">>, <<"b","b","c">>, <<"a","a","c">> }
\* exhaustive universe (whole reachable state space, no depth bound)
XNames == { <<"c">>, <<"b","c">>, <<"a","b","c">>, <<"a","c">>, <<"b">>, <<"b","b","c">> }
XQueries == XNames \cup { <<"a">>, <<"x">>, <<"b","b">>, <<"a","b">>, <<"x","c">> }
VNames == { <<"c">>, <<"b","c">>, <<"a","c">>, <<"a","b","c">> }
Comps == {"a","b","c"}
AllNames == UNION { [1..k -> Comps] : k \in 1..3 }   \* 39 names
QQueries == QNames \cup { <<"a">>, <<"x">>, <<"b","b">>, <<"c","c">>, <<"a","b">>, <<"x","c">> }
AllQueries == AllNames \cup { <<"x">>, <<"x","c">>, <<"a","b","c","a">> }

MaxDepth == 5
DepthBound == TLCGet("level") <= MaxDepth
=============================================================================
