SPECIFICATION Spec
CONSTANTS
  Confs <- MacConfs
  InitRegs <- MacRegs
  ScopeNames <- MacScopeNames
  MaxScopeDepth = 1
  MaxStack = 1
  BindVals <- MacBindVals
  MaxBindings = 2
  Enabled = {"Bind", "DefineConstant", "Interactive", "Finalize"}
  NameOrder <- NamesMac
  HookUniverse = {}
  BindApis = {"text"}
  FreshConfs = {}
  BindFilter <- MacFilter
  ConstVals <- MacConstVals
  QuerySpellings = {}
  ConstNames <- MacConstNames
  CallMaxExtra = 0
  CallExtraKw = {}
  CallsWithReq = FALSE
  DevKwEval = FALSE
VIEW ViewNoOut
CONSTRAINT ConstsBound
INVARIANT C05_Macros
INVARIANT C04_Refs
PROPERTY C05_ResolveA
PROPERTY C05_ConstDefine
PROPERTY C05_Finalize
CHECK_DEADLOCK FALSE
