-------------------------- MODULE SelectorMap_Sim --------------------------
(* Behaviour export for spec -> code replay.  Run with
     tlc -simulate num=N -depth SimDepth -workers 1 -seed S
   Each behaviour reaching level SimDepth is written as one JSON file
   $OUT_DIR/b<k>.json: a sequence of states, each with all variables, the
   action that led to it (name + parameter values) and ObserveAll evaluated
   in that state. *)
EXTENDS MC_SelectorMap, TLCExt, Json, IOUtils

ASSUME TLCSet(1, 0)   \* id of the last exported behaviour

SimDepth == 14

ObsOf(s) == [h \in s.alive |-> Observe(s.tree[h], s.term[h], s.flat[h])]

ExportConstraint ==
  IF TLCGet("level") = SimDepth /\ TLCGet("stats").traces # TLCGet(1)
  THEN /\ TLCSet(1, TLCGet("stats").traces)
       /\ JsonSerialize(IOEnv.OUT_DIR \o "/b" \o ToString(TLCGet(1)) \o ".json",
                        [i \in 1..Len(Trace) |-> [st |-> Trace[i], obs |-> ObsOf(Trace[i])]])
  ELSE TRUE
=============================================================================
