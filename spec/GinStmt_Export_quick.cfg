SPECIFICATION SSpec
CONSTANTS
  Alphabet = {}
  MaxLen = 0
  Templates <- AllTemplates
  MaxStmts = 2
CONSTRAINT ExportAll
CHECK_DEADLOCK FALSE
