---------------------------- MODULE GinExc_Trace ----------------------------
(* Code -> specification for exception propagation.  $TRACE_FILE: {"descs": [...], "traces": [[event...]...]} recorded
   from real exceptions crossing real configurables: ["Enter", conf, scope] per wrapper frame that the exception will
   cross, ["Raise", descriptor id, site], one ["Propagate"] per frame, and ["Catch", sameClass, readable kinds, number of
   suffixes found in the message].  Validated against GinExc with the named deviations switched *off* (since the fix of
   F13 / F14 the code follows the intended design): a lost suffix, a changed class or an attribute kind that stops
   forwarding is rejected. *)
EXTENDS GinExc, Json, IOUtils, TLCExt, SequencesExt

Input == JsonDeserialize(IOEnv.TRACE_FILE)
TraceDescs == { [id |-> d.id, ctor |-> d.ctor, attrs |-> ToSet(d.attrs), isExc |-> d.isExc] : d \in ToSet(Input.descs) }
Traces == Input.traces
TraceConfs == {"lv1", "lv2", "lv3", "raiser"}
TraceScopes == { e[3] : e \in UNION { { t[i] : i \in { j \in 1..Len(t) : t[j][1] = "Enter" } } : t \in ToSet(Traces) } }

VARIABLES tid, l
tvars == <<vars, tid, l>>
ASSUME \A i \in 1..Len(Traces) : TLCSet(100 + i, 0)
Ev == Traces[tid][l]

TStep ==
  /\ l <= Len(Traces[tid]) /\ l' = l + 1 /\ UNCHANGED tid
  /\ CASE Ev[1] = "Enter" -> Enter(Ev[2], Ev[3])
       [] Ev[1] = "Raise" -> \E d \in TraceDescs : d.id = Ev[2] /\ Raise(d, Ev[3])
       [] Ev[1] = "Propagate" -> Propagate
       [] Ev[1] = "Catch" -> /\ Catch
                             /\ exc.sameClass = Ev[2]
                             /\ exc.readable \subseteq ToSet(Ev[3])      \* at least what the model forwards (a default-valued C member reads equal by coincidence)
                             /\ Len(exc.suffixes) = Ev[4]
       [] OTHER -> FALSE
TInit == Init /\ tid \in 1..Len(Traces) /\ l = 1
TSpec == TInit /\ [][TStep]_tvars
Progress == TLCSet(100 + tid, IF TLCGet(100 + tid) > l THEN TLCGet(100 + tid) ELSE l)
Verdicts == \A i \in 1..Len(Traces) : PrintT(<<"VERDICT", i, TLCGet(100 + i), Len(Traces[i]) + 1>>)
=============================================================================
