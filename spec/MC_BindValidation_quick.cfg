SPECIFICATION Spec
CONSTANTS
  Confs <- ListShapes
  InitRegs <- ListRegs
  ScopeNames = {"a"}
  MaxScopeDepth = 1
  MaxStack = 2
  BindVals <- BV1
  MaxBindings = 3
  Enabled = {"Bind", "EnterScope", "ExitScope"}
  NameOrder <- Names8
  HookUniverse = {}
  BindApis <- AllApis
  FreshConfs = {}
  ConstNames = {}
  BindFilter <- AnyBind
  ConstVals = {}
  QuerySpellings = {}
  CallMaxExtra = 1
  CallExtraKw = {"z"}
  CallsWithReq = FALSE
  DevKwEval = FALSE
VIEW ViewNoOutUnordered
INVARIANT C11_StoreValid
PROPERTY C11_AcceptA
INVARIANT C11_NeverInjected
PROPERTY C11_Atomic
CHECK_DEADLOCK FALSE
