SPECIFICATION Spec
CONSTANTS
  Confs <- ClrConfs
  InitRegs <- ClrRegs
  ScopeNames = {"W", "X", "s1"}
  MaxScopeDepth = 1
  MaxStack = 2
  BindVals <- ClrBindVals
  MaxBindings = 5
  Enabled = {"Bind", "EnterScope", "ExitScope", "Call", "Clear", "Finalize", "Unlock", "RegisterHook", "Register",
             "DefineConstant", "Interactive", "Import", "SingletonDirect"}
  NameOrder <- NamesClr
  HookUniverse <- ClrHooks
  BindApis = {"tuple", "text"}
  FreshConfs <- LockFresh
  BindFilter <- ClrFilter
  ConstVals <- MacConstVals
  QuerySpellings = {}
  ConstNames <- MacConstNames
  CallMaxExtra = 0
  CallExtraKw = {}
  CallsWithReq = FALSE
  DevKwEval = FALSE
CONSTRAINT ExportConstraint
CHECK_DEADLOCK FALSE
