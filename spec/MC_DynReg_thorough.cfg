SPECIFICATION Spec
CONSTANTS
  Attr <- Tree
  ModuleOf <- Mods
  ExtraLoads <- Extra
  SkipForms <- DynSkips
  Templates <- Tpl
  PrevDocs <- NoPrev
  MaxStmts = 4
INVARIANT C19_ExactObject
INVARIANT C19_SameConfigurable
INVARIANT C19_Errors
INVARIANT C19_NothingElse
CHECK_DEADLOCK FALSE
