SPECIFICATION SSpec
CONSTANTS
  Alphabet = {}
  MaxLen = 0
  Templates <- Good
  MaxStmts = 3
INVARIANT C03_RoundTrip
CHECK_DEADLOCK FALSE
