SPECIFICATION Spec
CONSTANTS
  Confs <- Shapes
  InitRegs <- QuickRegs
  ScopeNames = {"a", "ab"}
  MaxScopeDepth = 2
  MaxStack = 2
  BindVals <- BV12
  MaxBindings = 2
  Enabled = {"Bind", "EnterScope", "ExitScope"}
  NameOrder <- Names6
  HookUniverse = {}
  BindApis = {"tuple"}
  FreshConfs = {}
  ConstNames = {}
  BindFilter <- AnyBind
  ConstVals = {}
  QuerySpellings = {}
  CallMaxExtra = 1
  CallExtraKw = {"z"}
  CallsWithReq = FALSE
  DevKwEval = FALSE
VIEW ViewStore
INVARIANT C01_Deliver
INVARIANT C01_NoLeak
CHECK_DEADLOCK FALSE
