----------------------------- MODULE GinDynReg -----------------------------
(***************************************************************************)
(* Dynamic registration (config.py ParseContext 152-334, process_import    *)
(* 189-219, _resolve_selector 221-259, _register 282-321, get_configurable *)
(* 323-334): in a file that starts with                                     *)
(*     from __gin__ import dynamic_registration                             *)
(* a dotted name is resolved through the file's own import statements and   *)
(* Python attributes, and the object reached is registered on first use.    *)
(*                                                                          *)
(* The Python side is a constant attribute tree (modules, functions,        *)
(* classes, a nested class, a method, and one function reachable under two  *)
(* module paths).  TLC builds a file statement by statement and checks the  *)
(* transcribed symbol-table / attribute-chain / registration bookkeeping     *)
(* against what Python's own import semantics say the name denotes.          *)
(***************************************************************************)
EXTENDS Naturals, Sequences, FiniteSets, SequencesExt, TLC

CONSTANTS Attr,        \* the attribute tree: set of [owner, name, target]; owner / target are node ids
          ModuleOf,    \* [dotted module path (sequence) -> node id] for every importable module
          ExtraLoads,  \* [module path -> further module paths its own code imports]
          SkipForms,   \* values of skip_unknown explored: [mode |-> "false" | "true" | "list", names |-> set of selectors]
          Templates,   \* statements a file may contain
          MaxStmts,
          PrevDocs     \* files that may have been parsed (successfully, in the same process) before this one

VARIABLES doc,         \* the file after the enabling statement: sequence of statements
          skip,        \* the skip_unknown argument of the parse
          prev         \* an earlier dynamic-registration file: what it imported, registered and bound stays behind
vars == <<doc, skip, prev>>

(* statements:
   [t |-> "import", form |-> "plain" | "as" | "from" | "fromas", module |-> path, alias |-> "" or name]
        for from-forms `module` is the full path of the imported module (from pk import mod -> <<"pk","mod">>)
   [t |-> "bind", scope |-> "" or a scope name, sel |-> sequence of components, param, val,
        ref |-> <<>> or the selector of a reference in the value, rscope |-> the scope written on that reference]
   [t |-> "enable"]  (a second, late enabling statement: an error)  *)

GetAttr(node, name) ==
  IF \E a \in Attr : a.owner = node /\ a.name = name THEN (CHOOSE a \in Attr : a.owner = node /\ a.name = name).target ELSE "none"

------------------------------------------------------------------------------
(* ImportStatement.bound_name / partial_path (103-117) *)
BoundName(s) == IF s.alias # "" THEN s.alias ELSE IF s.form \in {"from", "fromas"} THEN s.module[Len(s.module)] ELSE s.module[1]
PartialPath(s) ==
  IF s.alias # "" THEN SubSeq(s.module, 1, Len(s.module) - 1) \o <<s.alias>>
  ELSE IF s.form \in {"from", "fromas"} THEN s.module
  ELSE <<s.module[1]>>
\* what __import__ hands back (208-209): the module itself when a fromlist is given, else the top-level package
ImportedObject(s) ==
  IF s.form = "plain" THEN ModuleOf[<<s.module[1]>>] ELSE ModuleOf[s.module]

\* the state of one parse: symbol table, which submodules have been imported (an attribute of a package exists
\* only once the submodule was imported), registry (object -> selector), bindings (object, param) -> val
Parents(path) == { SubSeq(path, 1, i) : i \in 1..Len(path) }
LoadedBy(path) == Parents(path) \cup UNION { Parents(q) : q \in (IF path \in DOMAIN ExtraLoads THEN ExtraLoads[path] ELSE {}) }

EmptyState == [symbols |-> {}, source |-> {}, loaded |-> {}, registry |-> {}, cfg |-> {}, imports |-> <<>>]

SymTarget(st, name) == (CHOOSE e \in st.symbols : e.name = name).node
HasSym(st, name) == \E e \in st.symbols : e.name = name
SrcOf(st, name) == (CHOOSE e \in st.source : e.name = name).stmt

\* attribute access as Python sees it: a submodule is an attribute of its package only if it has been imported
PyGetAttr(st, node, name) ==
  LET t == GetAttr(node, name) IN
  IF t = "none" THEN "none"
  ELSE IF \E p \in DOMAIN ModuleOf : ModuleOf[p] = t /\ Len(p) > 1 /\ p \notin st.loaded THEN "none"
  ELSE t

\* _resolve_selector (221-259): result <<"ok", chain of nodes>> | <<"NameError">> | <<"AttributeError">>
RECURSIVE Chain(_, _, _, _)
Chain(st, node, names, acc) ==
  IF names = <<>> THEN <<"ok", acc>>
  ELSE LET t == PyGetAttr(st, node, Head(names)) IN
       IF t = "none" THEN <<"AttributeError">> ELSE Chain(st, t, Tail(names), Append(acc, t))
ResolveSel(st, sel) ==
  IF ~HasSym(st, sel[1]) THEN <<"NameError">>
  ELSE Chain(st, SymTarget(st, sel[1]), Tail(sel), <<SymTarget(st, sel[1])>>)

IsRegistered(st, obj) == \E r \in st.registry : r.obj = obj
SelOf(st, obj) == (CHOOSE r \in st.registry : r.obj = obj).sel

\* _register (282-321): the registry name comes from the import that provided the first component
RegName(st, sel) == PartialPath(SrcOf(st, sel[1])) \o SubSeq(sel, 2, Len(sel))
IsMethod(chain) == Len(chain) >= 2 /\ \E a \in Attr : a.target = chain[Len(chain)] /\ a.kind = "method" /\ a.owner = chain[Len(chain) - 1]

RECURSIVE RegisterChain(_, _, _)
RegisterChain(st, sel, chain) ==
  LET obj == chain[Len(chain)]
      st1 == [st EXCEPT !.registry = { r \in @ : r.obj # obj } \cup {[obj |-> obj, sel |-> RegName(st, sel)]}]
  IN IF IsMethod(chain) THEN RegisterChain(st1, SubSeq(sel, 1, Len(sel) - 1), SubSeq(chain, 1, Len(chain) - 1))   \* 318-319
     ELSE st1

\* get_configurable (323-334): an object that is already registered keeps its registration
Configurable(st, sel) ==
  LET r == ResolveSel(st, sel) IN
  IF r[1] # "ok" THEN [status |-> r[1], st |-> st, obj |-> "none"]
  ELSE LET obj == r[2][Len(r[2])] IN
       IF IsRegistered(st, obj) THEN [status |-> "ok", st |-> st, obj |-> obj]
       ELSE [status |-> "ok", st |-> RegisterChain(st, sel, r[2]), obj |-> obj]

\* with dynamic registration a name is known iff it resolves through the file's own imports (fix of F11)
KnownSel(st, sel) == ResolveSel(st, sel)[1] = "ok"
SkipSel(st, sel) ==
  IF KnownSel(st, sel) THEN FALSE
  ELSE IF skip.mode = "false" THEN FALSE
  ELSE IF skip.mode = "true" THEN TRUE
  ELSE sel \in skip.names

ApplyStmt(st, s) ==
  CASE s.t = "enable" -> [status |-> "SyntaxError", st |-> st]            \* enabled late (196-202)
    [] s.t = "import" ->
         IF s.module \notin DOMAIN ModuleOf
         THEN (IF skip.mode # "false" THEN [status |-> "ok", st |-> st] ELSE [status |-> "ImportError", st |-> st])
         ELSE IF BoundName(s) = "gin" THEN [status |-> "ValueError", st |-> [st EXCEPT !.loaded = @ \cup LoadedBy(s.module)]]  \* 212-216
         ELSE [status |-> "ok",
               st |-> [st EXCEPT !.symbols = { e \in @ : e.name # BoundName(s) } \cup {[name |-> BoundName(s), node |-> ImportedObject(s)]},
                                 !.source = { e \in @ : e.name # BoundName(s) } \cup {[name |-> BoundName(s), stmt |-> s]},
                                 !.loaded = @ \cup LoadedBy(s.module),
                                 !.imports = Append(@, s)]]
    [] s.t = "bind" ->
         \* the value is parsed first: a reference in it resolves (and registers) its target (700-715)
         LET v == IF s.ref = <<>> \/ SkipSel(st, s.ref) THEN [status |-> "ok", st |-> st, obj |-> "none"] ELSE Configurable(st, s.ref)
             c == Configurable(v.st, s.sel)
         IN
         IF v.status # "ok" THEN [status |-> v.status, st |-> st]
         ELSE IF SkipSel(v.st, s.sel) THEN [status |-> "ok", st |-> v.st]           \* the statement is dropped
         ELSE IF c.status # "ok" THEN [status |-> c.status, st |-> v.st]
         ELSE [status |-> "ok",
               st |-> [c.st EXCEPT !.cfg = { b \in @ : ~(b.scope = s.scope /\ b.obj = c.obj /\ b.param = s.param) }
                                          \cup {[scope |-> s.scope, obj |-> c.obj, param |-> s.param,
                                                 val |-> IF s.ref # <<>> /\ SkipSel(st, s.ref) THEN "unk" ELSE s.val,
                                                 \* a reference is a reference to the object its name denoted, under the scope written on it
                                                 ref |-> IF s.ref # <<>> /\ ~SkipSel(st, s.ref) THEN v.obj ELSE "none",
                                                 rscope |-> IF s.ref # <<>> /\ ~SkipSel(st, s.ref) THEN s.rscope ELSE ""]}]]

RECURSIVE Run(_, _, _)
Run(st, d, k) ==
  IF k > Len(d) THEN [status |-> "ok", st |-> st, at |-> 0]
  ELSE LET r == ApplyStmt(st, d[k]) IN
       IF r.status # "ok" THEN [status |-> r.status, st |-> r.st, at |-> k] ELSE Run(r.st, d, k + 1)
\* a new file starts with an empty symbol table (158-166); the registry, the bindings and Python's loaded modules stay
NewFile(st) == [st EXCEPT !.symbols = {}, !.source = {}, !.imports = <<>>]
RECURSIVE RunNoSkip(_, _, _)
RunNoSkip(st, d, k) ==       \* the earlier file is a valid one and was parsed without skip_unknown
  IF k > Len(d) THEN st
  ELSE LET s == d[k] IN
       IF s.t = "import"
       THEN RunNoSkip([st EXCEPT !.symbols = { e \in @ : e.name # BoundName(s) } \cup {[name |-> BoundName(s), node |-> ImportedObject(s)]},
                                 !.source = { e \in @ : e.name # BoundName(s) } \cup {[name |-> BoundName(s), stmt |-> s]},
                                 !.loaded = @ \cup LoadedBy(s.module), !.imports = Append(@, s)], d, k + 1)
       ELSE LET v == IF s.ref = <<>> THEN [st |-> st, obj |-> "none"] ELSE Configurable(st, s.ref)     \* the value is parsed first
                c == Configurable(v.st, s.sel) IN
            RunNoSkip([c.st EXCEPT !.cfg = { b \in @ : ~(b.scope = s.scope /\ b.obj = c.obj /\ b.param = s.param) }
                                           \cup {[scope |-> s.scope, obj |-> c.obj, param |-> s.param, val |-> s.val,
                                                  ref |-> v.obj, rscope |-> IF s.ref = <<>> THEN "" ELSE s.rscope]}], d, k + 1)
PrevState == RunNoSkip(EmptyState, prev, 1)
Result == Run(NewFile(PrevState), doc, 1)

------------------------------------------------------------------------------
(* What Python's own semantics say a dotted name denotes in this file (independent of gin's bookkeeping):
   the file's import statements executed in order bind names exactly as Python's `import` would. *)
PyBinding(d, k, name) ==       \* node bound to `name` just before statement k, or "none"
  LET idx == { i \in 1..(k - 1) : d[i].t = "import" /\ d[i].module \in DOMAIN ModuleOf /\ BoundName(d[i]) = name } IN
  IF idx = {} THEN "none"
  ELSE LET i == CHOOSE i \in idx : \A j \in idx : j <= i IN ImportedObject(d[i])
PyLoaded(d, k) == UNION { LoadedBy(d[i].module) : i \in { j \in 1..(k - 1) : d[j].t = "import" /\ d[j].module \in DOMAIN ModuleOf } }
                  \cup UNION { LoadedBy(prev[i].module) : i \in { j \in 1..Len(prev) : prev[j].t = "import" } }   \* sys.modules is per process
RECURSIVE PyWalk(_, _, _)
PyWalk(loaded, node, names) ==
  IF names = <<>> THEN node
  ELSE LET t == GetAttr(node, Head(names)) IN
       IF t = "none" THEN "none"
       ELSE IF \E p \in DOMAIN ModuleOf : ModuleOf[p] = t /\ Len(p) > 1 /\ p \notin loaded THEN "none"
       ELSE PyWalk(loaded, t, Tail(names))
PyDenotes(d, k) ==             \* the object statement k's selector denotes, "none" if it is no valid name there
  LET b == PyBinding(d, k, d[k].sel[1]) IN
  IF b = "none" THEN "none" ELSE PyWalk(PyLoaded(d, k), b, Tail(d[k].sel))

PyRefDenotes(d, k) ==
  LET b == PyBinding(d, k, d[k].ref[1]) IN
  IF b = "none" THEN "none" ELSE PyWalk(PyLoaded(d, k), b, Tail(d[k].ref))

\* skip_unknown under dynamic registration: a statement is deleted iff its name does not denote anything through this
\* file's imports and the argument covers it (independent of what was registered before)
PyDropped(d, k) ==
  d[k].t = "bind" /\ PyDenotes(d, k) = "none" /\ (skip.mode = "true" \/ (skip.mode = "list" /\ d[k].sel \in skip.names))
PyRefDropped(d, k) ==
  d[k].t = "bind" /\ d[k].ref # <<>> /\ PyRefDenotes(d, k) = "none"
  /\ (skip.mode = "true" \/ (skip.mode = "list" /\ d[k].ref \in skip.names))

\* C19: every applied binding configures exactly the object its dotted name denotes; all spellings of one object
\* share one configurable; names not provided by the file's own imports are errors
C19_ExactObject ==
  LET r == Result
      n == IF r.status = "ok" THEN Len(doc) ELSE r.at - 1
  IN \A k \in 1..n : (doc[k].t = "bind" /\ ~PyDropped(doc, k)) =>
        /\ PyDenotes(doc, k) # "none"
        /\ \E b \in r.st.cfg : b.obj = PyDenotes(doc, k) /\ b.param = doc[k].param /\ b.scope = doc[k].scope
C19_SameConfigurable ==
  LET r == Result IN
  /\ \A a, b \in r.st.registry : a.obj = b.obj => a = b
  /\ \A b \in r.st.cfg : IsRegistered(r.st, b.obj)
C19_Errors ==
  LET r == Result IN
  r.status # "ok" =>
    LET s == doc[r.at] IN
    CASE s.t = "bind" -> r.status \in {"NameError", "AttributeError"}
                          /\ ((PyDenotes(doc, r.at) = "none" /\ ~PyDropped(doc, r.at))
                              \/ (s.ref # <<>> /\ PyRefDenotes(doc, r.at) = "none" /\ ~PyRefDropped(doc, r.at)))
      [] s.t = "import" -> (s.module \notin DOMAIN ModuleOf /\ r.status = "ImportError" /\ skip.mode = "false")
                            \/ (BoundName(s) = "gin" /\ r.status = "ValueError")
      [] s.t = "enable" -> r.status = "SyntaxError"
\* the only bindings present are those spelled by the applied statements (last one wins per object and parameter)
C19_NothingElse ==
  LET r == Result
      n == IF r.status = "ok" THEN Len(doc) ELSE r.at - 1
      fromDoc(b) == \E k \in 1..n : doc[k].t = "bind" /\ PyDenotes(doc, k) = b.obj /\ doc[k].param = b.param /\ doc[k].scope = b.scope
        /\ b.val = (IF PyRefDropped(doc, k) THEN "unk" ELSE doc[k].val)
        /\ b.ref = (IF doc[k].ref # <<>> /\ ~PyRefDropped(doc, k) THEN PyRefDenotes(doc, k) ELSE "none")
        /\ b.rscope = (IF doc[k].ref # <<>> /\ ~PyRefDropped(doc, k) THEN doc[k].rscope ELSE "")
        /\ \A j \in (k + 1)..n : ~(doc[j].t = "bind" /\ PyDenotes(doc, j) = b.obj /\ doc[j].param = b.param /\ doc[j].scope = b.scope)
      \* what the earlier file bound stays, unless this file binds the same parameter of the same object
      fromPrev(b) == b \in PrevState.cfg /\ \A k \in 1..n : ~(doc[k].t = "bind" /\ ~PyDropped(doc, k) /\ PyDenotes(doc, k) = b.obj
                                                              /\ doc[k].param = b.param /\ doc[k].scope = b.scope)
  IN /\ \A b \in r.st.cfg : fromDoc(b) \/ fromPrev(b)
     /\ \A b \in PrevState.cfg : (\E c \in r.st.cfg : c.obj = b.obj /\ c.param = b.param /\ c.scope = b.scope)

Init == doc = <<>> /\ skip \in SkipForms /\ prev \in PrevDocs
Next == Len(doc) < MaxStmts /\ \E t \in Templates : doc' = Append(doc, t) /\ UNCHANGED <<skip, prev>>
Spec == Init /\ [][Next]_vars
=============================================================================
