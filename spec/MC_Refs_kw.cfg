SPECIFICATION Spec
CONSTANTS
  Confs <- RefConfsK
  InitRegs <- RefRegsKOnly
  ScopeNames = {"a", "b"}
  MaxScopeDepth = 1
  MaxStack = 2
  BindVals <- RefBindVals
  MaxBindings = 2
  Enabled = {"Bind", "EnterScope", "ExitScope"}
  NameOrder <- NamesRefsK
  HookUniverse = {}
  BindApis = {"tuple"}
  FreshConfs = {}
  BindFilter <- RefFilter
  ConstVals = {}
  QuerySpellings = {}
  ConstNames = {}
  CallMaxExtra = 0
  CallExtraKw = {"z"}
  CallsWithReq = FALSE
  DevKwEval = FALSE
VIEW ViewStoreOrdered
INVARIANT C04_Refs
CHECK_DEADLOCK FALSE
