--------------------------- MODULE GinCore_Trace ---------------------------
(***************************************************************************)
(* Code -> specification for GinCore.  $TRACE_FILE holds a JSON array of   *)
(* traces recorded from the real gin by a randomised driver (histories go  *)
(* beyond the constants of the exhaustive models: deeper scopes, more      *)
(* parameters, longer histories).  A trace: [reg |-> descriptors,          *)
(* events |-> <<event...>>]; an event is the public call that was made     *)
(* (same fields as the specification's `out`), what it returned / raised / *)
(* delivered, and the projection of gin's module state after it.           *)
(* Every event must be explained by the corresponding GinCore action with  *)
(* the logged arguments, produce the logged result, and leave the logged   *)
(* state.  One TLC run validates a batch; verdict lines per trace.         *)
(***************************************************************************)
EXTENDS MC_GinCore, Json, IOUtils, TLCExt

Traces == JsonDeserialize(IOEnv.TRACE_FILE)

VARIABLES tid, l
tvars == <<vars, tid, l>>
ASSUME \A i \in 1..Len(Traces) : TLCSet(100 + i, 0)

(* JSON -> specification values *)
RECURSIVE ValOf(_)
PairsOf(ps) == { <<p[1], ValOf(p[2])>> : p \in ToSet(ps) }
ValOf(j) ==
  CASE j[1] = "res" -> <<"res", j[2], j[3], PairsOf(j[4])>>
    [] j[1] \in {"list", "tuple"} -> <<j[1], [i \in 1..Len(j[2]) |-> ValOf(j[2][i])]>>
    [] j[1] = "dict" -> <<"dict", [i \in 1..Len(j[2]) |-> <<ValOf(j[2][i][1]), ValOf(j[2][i][2])>>]>>
    [] OTHER -> j
ConfOf(d) ==
  [ deco |-> d.deco, twin |-> d.twin, sel |-> d.sel, kind |-> d.kind, pos |-> d.pos, npd |-> d.npd, kwo |-> d.kwo, kwd |-> ToSet(d.kwd), va |-> d.va, vk |-> d.vk,
    dflt |-> { <<e[1], ValOf(e[2])>> : e \in ToSet(d.dflt) }, allow |-> ToSet(d.allow), deny |-> ToSet(d.deny),
    body |-> d.body, api |-> d.api ]
TraceConfs == UNION { { ConfOf(d) : d \in ToSet(Traces[i].reg) } : i \in 1..Len(Traces) }
TraceRegs == { { ConfOf(d) : d \in ToSet(Traces[i].reg) } : i \in 1..Len(Traces) }
TraceNames == <<"constructor", "j", "k", "p", "q", "r", "self", "value", "x", "y", "z">>

Ev == Traces[tid].events[l]
ConfFor(sel) == CHOOSE c \in reg : c.sel = sel

\* the logged projection of gin's state, against the specification's successor state
StateMatches(p) ==
  /\ { <<k[1], k[2]>> : k \in ToSet(p.cfg) } = { <<cfg'[i].scope, cfg'[i].sel>> : i \in 1..Len(cfg') }
  /\ \A k \in ToSet(p.cfg) :       \* per (scope, selector): the parameters in dict order with their values
        LET sub == SelectSeq(cfg', LAMBDA b : b.scope = k[1] /\ b.sel = k[2]) IN
        [i \in 1..Len(sub) |-> <<sub[i].param, sub[i].val>>] = [i \in 1..Len(k[3]) |-> <<k[3][i][1], ValOf(k[3][i][2])>>]
  /\ { <<k[1], k[2]>> : k \in ToSet(p.okeys) } = { <<k.scope, k.sel>> : k \in okeys' }
  /\ { <<r[1], r[2], r[3], ValOf(r[4])>> : r \in ToSet(p.oper) } = { <<r.scope, r.sel, r.param, r.val>> : r \in oper' }
  /\ p.stack = stack'
  /\ p.locked = locked'
  /\ p.interactive = interactive'
  /\ { <<k[1], ValOf(k[2])>> : k \in ToSet(p.consts) } = { <<k.name, k.val>> : k \in consts' }
  /\ ToSet(p.singles) = { s.key : s \in singles' }
  /\ ToSet(p.imports) = imports'

ResultMatches ==
  /\ out'.status = Ev.status
  /\ (Ev.op = "Call" /\ Ev.status = "ok") =>
        /\ PairsOf(Ev.delivered) = out'.delivered
        /\ PairsOf(Ev.kw) = out'.kw
        /\ [i \in 1..Len(Ev.va) |-> ValOf(Ev.va[i])] = out'.va
        /\ ValOf(Ev.ret) = out'.ret
        /\ [i \in 1..Len(Ev.evals) |-> <<Ev.evals[i].sel, Ev.evals[i].scope, PairsOf(Ev.evals[i].delivered)>>]
             = [i \in 1..Len(out'.evals) |-> <<out'.evals[i].sel, out'.evals[i].scope, out'.evals[i].delivered>>]
  /\ (Ev.op = "Call" /\ Ev.status = "RuntimeError") => Ev.missing = out'.missing
  /\ (Ev.op = "Call") => Ev.ran = out'.ran

TStep ==
  /\ l <= Len(Traces[tid].events) /\ l' = l + 1 /\ UNCHANGED tid
  /\ CASE Ev.op = "Bind" -> Bind(Ev.api, Ev.scope, ConfFor(Ev.sel), Ev.param, ValOf(Ev.val))
       [] Ev.op = "EnterScope" -> EnterScope(Ev.how, Ev.comps)
       [] Ev.op = "ExitScope" -> ExitScope(Ev.byException)
       [] Ev.op = "Call" -> CallBody(ConfFor(Ev.sel), [pargs |-> [i \in 1..Len(Ev.pargs) |-> ValOf(Ev.pargs[i])], kw |-> PairsOf(Ev.ckw)])
       [] Ev.op = "Clear" -> Clear(Ev.clearConstants)
       [] Ev.op = "Finalize" -> Finalize
       [] Ev.op = "UnlockEnter" -> UnlockEnter
       [] Ev.op = "UnlockExit" -> UnlockExit(Ev.byException)
       [] Ev.op = "DefineConstant" -> DefineConstant(Ev.name, ValOf(Ev.val), Ev.valid)
       [] Ev.op = "SetInteractive" -> SetInteractive(Ev.on)
       [] Ev.op = "ParseImport" -> ParseImport(Ev.module)
       [] Ev.op = "SingletonDirect" -> SingletonDirect(Ev.key) /\ out'.fresh = Ev.fresh
       [] OTHER -> FALSE
  /\ ResultMatches
  /\ StateMatches(Ev.post)

TInit == /\ tid \in 1..Len(Traces) /\ l = 1
         /\ reg = { ConfOf(d) : d \in ToSet(Traces[tid].reg) }
         /\ cfg = <<>> /\ stack = << <<>> >> /\ okeys = {} /\ oper = {}
         /\ locked = FALSE /\ usaved = <<>> /\ interactive = FALSE /\ singles = {} /\ consts = {} /\ hooks = <<>> /\ imports = {}
         /\ out = NoOut
TSpec == TInit /\ [][TStep]_tvars
Progress == TLCSet(100 + tid, IF TLCGet(100 + tid) > l THEN TLCGet(100 + tid) ELSE l)
Verdicts == \A i \in 1..Len(Traces) : PrintT(<<"VERDICT", i, TLCGet(100 + i), Len(Traces[i].events) + 1>>)

AnyConstName(n) == TRUE
=============================================================================
