--------------------------- MODULE MC_GinRegister ---------------------------
EXTENDS GinRegister, Json

Req(tag, sel, obj, nv, mv, both, notseq, unk, method, mname) ==
  [tag |-> tag, sel |-> sel, obj |-> obj, nameValid |-> nv, moduleValid |-> mv, bothLists |-> both,
   listNotSequence |-> notseq, unknownListName |-> unk, method |-> method, methodName |-> mname]

Reqs == {
  Req("f-as-s1", "m.s1", "f", TRUE, TRUE, FALSE, FALSE, FALSE, "none", ""),
  Req("g-as-s1", "m.s1", "g", TRUE, TRUE, FALSE, FALSE, FALSE, "none", ""),      \* a different object under the same full name
  Req("g-as-s2", "m.s2", "g", TRUE, TRUE, FALSE, FALSE, FALSE, "none", ""),
  Req("bad-name", "m.s3", "f", FALSE, TRUE, FALSE, FALSE, FALSE, "none", ""),
  Req("bad-module", "m.s3", "f", TRUE, FALSE, FALSE, FALSE, FALSE, "none", ""),
  Req("both-lists", "m.s3", "f", TRUE, TRUE, TRUE, FALSE, FALSE, "none", ""),
  Req("list-not-seq", "m.s3", "f", TRUE, TRUE, FALSE, TRUE, FALSE, "none", ""),
  Req("unknown-in-list", "m.s3", "f", TRUE, TRUE, FALSE, FALSE, TRUE, "none", ""),
  Req("method", "m.meth", "meth", TRUE, TRUE, FALSE, FALSE, FALSE, "none", ""),
  Req("class-of-method", "m.K", "K", TRUE, TRUE, FALSE, FALSE, FALSE, "m.meth", "meth"),
  Req("class-of-method-bad-list", "m.K", "K", TRUE, TRUE, FALSE, FALSE, TRUE, "m.meth", "meth"),
  Req("class-of-method-bad-module", "m.K", "K", TRUE, FALSE, FALSE, FALSE, FALSE, "m.meth", "meth") }

PredictionTable == [ a \in Apis |-> [ k \in Kinds |-> [ s \in BOOLEAN |-> Predict(a, k, s) ] ] ]
ASSUME PrintT(ToJson(<<"PREDICT", [ a \in Apis |-> [ k \in Kinds |-> <<Predict(a, k, FALSE), Predict(a, k, TRUE)>> ] ]>>))
=============================================================================
