--------------------------- MODULE GinDynReg_Export ---------------------------
EXTENDS MC_GinDynReg, Json
ExportAll == PrintT(ToJson([doc |-> doc, prev |-> prev, skip |-> [mode |-> skip.mode, names |-> SetToSeq(skip.names)], status |-> Result.status, at |-> Result.at,
                            cfg |-> SetToSeq(Result.st.cfg), registry |-> SetToSeq(Result.st.registry)]))
=============================================================================
