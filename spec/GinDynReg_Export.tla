--------------------------- MODULE GinDynReg_Export ---------------------------
EXTENDS MC_GinDynReg, Json
ExportAll == PrintT(ToJson([doc |-> doc, status |-> Result.status, at |-> Result.at,
                            cfg |-> SetToSeq(Result.st.cfg), registry |-> SetToSeq(Result.st.registry)]))
=============================================================================
