SPECIFICATION TSpec
CONSTANTS
  Threads <- TraceThreads
  Programs <- TraceProgs
  LockOper = TRUE
  LockSingletons = TRUE
CONSTRAINT Progress
INVARIANT C18_NoFailure
INVARIANT C18_Sequential
INVARIANT C18_Once
INVARIANT C09_Private
POSTCONDITION Verdicts
CHECK_DEADLOCK FALSE
