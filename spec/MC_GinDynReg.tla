---------------------------- MODULE MC_GinDynReg ----------------------------
EXTENDS GinDynReg
A(o, n, t, k) == [owner |-> o, name |-> n, target |-> t, kind |-> k]
Tree == {
  A("M:pk", "mod", "M:pk.mod", "module"), A("M:pk", "sub", "M:pk.sub", "module"), A("M:pk", "alias", "M:pk.alias", "module"),
  A("M:pk.sub", "mod", "M:pk.sub.mod", "module"),
  A("M:pk", "sib", "M:pk.sib", "module"), A("M:pk.sib", "mod", "M:pk.sib.mod", "module"), A("M:pk.sib.mod", "fn", "fn6", "fn"),   \* a sibling with the same leaf name
  A("M:pk.mod", "fn", "fn", "fn"), A("M:pk.mod", "Cls", "Cls", "cls"), A("Cls", "meth", "meth", "method"), A("Cls", "Inner", "Inner", "cls"),
  A("Inner", "im", "im", "method"),
  A("M:pk.mod", "traced_fn", "tfn", "fn"),                   \* another object: a functools.wraps decorator around fn                          \* a method of a nested class
  A("M:pk.sub.mod", "fn", "fn5", "fn"),
  A("M:pk.alias", "fn", "fn", "fn") }                         \* the same function object under a second module path
Mods == (<<"pk">> :> "M:pk") @@ (<<"pk","mod">> :> "M:pk.mod") @@ (<<"pk","sub">> :> "M:pk.sub")
        @@ (<<"pk","sub","mod">> :> "M:pk.sub.mod") @@ (<<"pk","alias">> :> "M:pk.alias")
        @@ (<<"pk","sib">> :> "M:pk.sib") @@ (<<"pk","sib","mod">> :> "M:pk.sib.mod")
Extra == (<<"pk","alias">> :> {<<"pk","mod">>})
Imp(form, module, alias) == [t |-> "import", form |-> form, module |-> module, alias |-> alias]
Bnd(sel, param, val) == [t |-> "bind", scope |-> "", sel |-> sel, param |-> param, val |-> val, ref |-> <<>>, rscope |-> ""]
BndS(sc, sel, param, val) == [Bnd(sel, param, val) EXCEPT !.scope = sc]
BndRef(sel, param, ref) == [t |-> "bind", scope |-> "", sel |-> sel, param |-> param, val |-> "@", ref |-> ref, rscope |-> ""]
BndRefS(sel, param, ref, rsc) == [BndRef(sel, param, ref) EXCEPT !.rscope = rsc]
DynSkips == { [mode |-> "false", names |-> {}], [mode |-> "true", names |-> {}],
              [mode |-> "list", names |-> {<<"zz","fn">>, <<"pk","mod","nope">>}] }
Tpl == {
  Imp("plain", <<"pk","mod">>, ""), Imp("plain", <<"pk","sub","mod">>, ""), Imp("as", <<"pk","mod">>, "m"),
  Imp("from", <<"pk","mod">>, ""), Imp("from", <<"pk","sub","mod">>, ""), Imp("fromas", <<"pk","alias">>, "al"),
  Imp("plain", <<"pk","nope">>, ""), Imp("as", <<"pk","mod">>, "gin"), Imp("plain", <<"pk","sib","mod">>, ""),
  Bnd(<<"pk","sib","mod","fn">>, "x", "6"),
  Bnd(<<"pk","mod","fn">>, "x", "1"), Bnd(<<"m","fn">>, "x", "2"), Bnd(<<"mod","fn">>, "x", "3"), Bnd(<<"al","fn">>, "y", "4"),
  Bnd(<<"pk","mod","Cls">>, "x", "1"), Bnd(<<"pk","mod","Cls","meth">>, "x", "2"), Bnd(<<"mod","Cls","Inner">>, "x", "3"),
  Bnd(<<"pk","sub","mod","fn">>, "x", "5"), Bnd(<<"zz","fn">>, "x", "1"), Bnd(<<"pk","mod","nope">>, "x", "1"),
  Bnd(<<"pk","mod","traced_fn">>, "x", "9"),
  BndRef(<<"pk","mod","fn">>, "y", <<"pk","mod","Cls">>), BndRef(<<"m","fn">>, "y", <<"m","Cls">>),
  BndRef(<<"pk","mod","fn">>, "y", <<"zz","fn">>), Bnd(<<"pk","sub","mod","nope">>, "x", "1"),
  \* scoped bindings and scoped references; a nested class, its method, a reference to it
  BndS("sc", <<"pk","mod","Cls">>, "x", "7"), BndRefS(<<"pk","mod","fn">>, "y", <<"pk","mod","Cls">>, "sc"),
  Bnd(<<"pk","mod","Cls","Inner","im">>, "x", "4"), BndRef(<<"pk","mod","fn">>, "y", <<"pk","mod","Cls","Inner">>),
  [t |-> "enable"] }
\* the sibling family: plain imports of modules that share package prefixes and leaf names, every order
TplSib == { Imp("plain", <<"pk","sub","mod">>, ""), Imp("plain", <<"pk","sib","mod">>, ""), Imp("plain", <<"pk","mod">>, ""),
  Bnd(<<"pk","sub","mod","fn">>, "x", "5"), Bnd(<<"pk","sib","mod","fn">>, "x", "6"), Bnd(<<"pk","mod","fn">>, "x", "1"),
  Bnd(<<"pk","mod","Cls","meth">>, "x", "2"), Bnd(<<"pk","mod","traced_fn">>, "x", "9") }
\* the method family: references (plain, scoped, to a nested class) made before / after methods of the class are configured
TplMeth == { Imp("plain", <<"pk","mod">>, ""),
  BndRef(<<"pk","mod","fn">>, "y", <<"pk","mod","Cls">>), BndRefS(<<"pk","mod","fn">>, "y", <<"pk","mod","Cls">>, "sc"),
  BndRef(<<"pk","mod","fn">>, "y", <<"pk","mod","Cls","Inner">>),
  Bnd(<<"pk","mod","Cls">>, "x", "1"), BndS("sc", <<"pk","mod","Cls">>, "x", "7"), Bnd(<<"pk","mod","Cls","meth">>, "x", "2"),
  Bnd(<<"pk","mod","Cls","Inner">>, "x", "3"), Bnd(<<"pk","mod","Cls","Inner","im">>, "x", "4") }
\* the re-binding family: one name bound by two import statements of one file to different modules (the later wins)
TplRebind == { Imp("from", <<"pk","mod">>, ""), Imp("from", <<"pk","sub","mod">>, ""), Imp("as", <<"pk","mod">>, "m"), Imp("as", <<"pk","sub","mod">>, "m"),
  Bnd(<<"mod","fn">>, "x", "3"), Bnd(<<"m","fn">>, "x", "2"),
  \* an alias equal to the name the plain form would bind: `import pk.mod as pk` makes pk the module, not the package
  Imp("as", <<"pk","mod">>, "pk"), Bnd(<<"pk","fn">>, "x", "8"), Imp("plain", <<"pk","mod">>, "") }
SkipFalseOnly == { [mode |-> "false", names |-> {}] }
NoPrev == { <<>> }
\* earlier files: one that registered fn through pk.mod, one that registered pk.sub.mod's fn through a from-import
Prevs == { <<>>, << Imp("plain", <<"pk","mod">>, ""), Bnd(<<"pk","mod","fn">>, "x", "9") >>,
           \* an earlier file that referred to the class through an alias of its own
           << Imp("as", <<"pk","mod">>, "m"), BndRef(<<"m","fn">>, "y", <<"m","Cls">>) >>,
           << Imp("from", <<"pk","sub","mod">>, ""), Bnd(<<"mod","fn">>, "y", "8"), Imp("plain", <<"pk","mod">>, ""), Bnd(<<"pk","mod","Cls">>, "x", "7") >> }
\* the history family: few templates, every earlier file
TplHist == { Bnd(<<"pk","mod","Cls","meth">>, "x", "2"), Imp("plain", <<"pk","mod">>, ""), Imp("plain", <<"pk","sub","mod">>, ""), Imp("from", <<"pk","sub","mod">>, ""),
  Bnd(<<"pk","mod","fn">>, "x", "1"), Bnd(<<"mod","fn">>, "x", "3"), Bnd(<<"pk","mod","Cls">>, "x", "1"), Bnd(<<"pk","sub","mod","fn">>, "x", "5"),
  BndRef(<<"pk","mod","fn">>, "y", <<"pk","mod","Cls">>), BndRef(<<"mod","fn">>, "y", <<"pk","mod","fn">>) }
HistSkips == { [mode |-> "false", names |-> {}], [mode |-> "true", names |-> {}],
               [mode |-> "list", names |-> {<<"pk","mod","fn">>, <<"mod","fn">>}] }
=============================================================================
