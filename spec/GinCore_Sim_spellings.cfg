SPECIFICATION Spec
CONSTANTS
  Confs <- SpConfs
  InitRegs <- SpRegs
  ScopeNames = {"a"}
  MaxScopeDepth = 1
  MaxStack = 1
  BindVals <- BV12
  MaxBindings = 4
  Enabled = {"BindSp", "Query", "Register", "GetBindings", "Call", "Finalize", "RegisterHook"}
  NameOrder <- NamesPQ
  HookUniverse <- SpHooks
  BindApis = {"string", "text", "block"}
  FreshConfs <- SpFresh
  BindFilter <- AnyBind
  ConstVals = {}
  QuerySpellings <- Spellings
  ConstNames = {}
  CallMaxExtra = 0
  CallExtraKw = {}
  CallsWithReq = FALSE
  DevKwEval = FALSE
CONSTRAINT ExportConstraint
CHECK_DEADLOCK FALSE
