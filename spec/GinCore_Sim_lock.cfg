SPECIFICATION Spec
CONSTANTS
  Confs <- LockConfs
  InitRegs <- LockRegs
  ScopeNames = {"a"}
  MaxScopeDepth = 1
  MaxStack = 2
  BindVals <- BV12
  MaxBindings = 4
  Enabled = {"Bind", "Finalize", "Unlock", "RegisterHook", "Register", "Clear", "Call", "EnterScope", "ExitScope"}
  NameOrder <- NamesPQ
  HookUniverse <- Hooks
  BindApis <- AllApis
  FreshConfs <- LockFresh
  ConstNames = {}
  BindFilter <- AnyBind
  ConstVals = {}
  QuerySpellings = {}
  CallMaxExtra = 1
  CallExtraKw = {"z"}
  CallsWithReq = FALSE
  DevKwEval = FALSE
CONSTRAINT ExportConstraint
CHECK_DEADLOCK FALSE
