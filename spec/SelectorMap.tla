--------------------------- MODULE SelectorMap ---------------------------
(***************************************************************************)
(* gin/selector_map.py: a dict-like object keyed by dotted names that      *)
(* supports look-ups by dotted *suffix*.                                    *)
(*                                                                          *)
(* Written to be bound to the code: the state of one SelectorMap object is  *)
(* the pair (_selector_tree, _selector_map).  The nested dict-of-dicts tree *)
(* is modelled by its set of node paths (a node is the sequence of          *)
(* components leading to it, innermost component first, the root is <<>>)   *)
(* plus the set of terminal markers node['$'] = complete_selector.          *)
(* Actions are the mutating public methods; the read-only public methods    *)
(* (matching_selectors / get_match / minimal_selector / __contains__ /      *)
(* get) are operators transcribed from the code; ObserveAll collects their  *)
(* results for the whole query universe in a state, and both conformance    *)
(* directions compare it with the real object's answers.                    *)
(*                                                                          *)
(* The declarative side (operators named Decl...) never mentions the tree: it is stated over  *)
(* the set of stored names only.                                            *)
(***************************************************************************)
EXTENDS Naturals, Sequences, FiniteSets, SequencesExt, TLC

CONSTANTS Names,      \* universe of complete selectors: sequences of components
          Queries,    \* universe of query selectors (superset of Names is sensible)
          Handles,    \* map objects ("h1", "h2", ...)
          FirstHandle,\* the handle that exists initially
          Values,     \* stored values
          DevMinimalRoot  \* TRUE models the pre-fix `start = -0` behaviour (finding F4)

VARIABLES alive,  \* set of handles that exist
          tree,   \* [Handles -> set of node paths]              (_selector_tree)
          term,   \* [Handles -> set of [path |-> p, name |-> n]] (node['$'])
          flat,   \* [Handles -> set of [name |-> n, val |-> v]]  (_selector_map)
          last    \* result of the last mutating call: "ok" | "KeyError" | "ValueError"

vars == <<alive, tree, term, flat, last>>

None == "None"

------------------------------------------------------------------------------
(* helpers on paths *)
Rev(s) == Reverse(s)
PathPrefixes(p) == { SubSeq(p, 1, i) : i \in 0..Len(p) }          \* includes <<>> and p
IsPathPrefix(p, q) == Len(p) <= Len(q) /\ SubSeq(q, 1, Len(p)) = p
SuffixOf(q, n) == Len(q) <= Len(n) /\ SubSeq(n, Len(n) - Len(q) + 1, Len(n)) = q

Keys(fl) == { e.name : e \in fl }
ValOf(fl, n) == (CHOOSE e \in fl : e.name = n).val

Children(tr, p) == { q \in tr : Len(q) = Len(p) + 1 /\ IsPathPrefix(p, q) }
HasTerm(tm, p) == \E e \in tm : e.path = p
TermAt(tm, p) == (CHOOSE e \in tm : e.path = p).name
\* len(node) of the python dict: children plus the '$' key if present
NumKeys(tr, tm, p) == Cardinality(Children(tr, p)) + (IF HasTerm(tm, p) THEN 1 ELSE 0)

------------------------------------------------------------------------------
(* Implementation-shaped read-only methods *)

\* matching_selectors (selector_map.py:123-160)
Matching(tr, tm, fl, q) ==
  IF q \in Keys(fl) THEN {q}                                   \* exact match wins (140-141)
  ELSE LET p == Rev(q) IN
       IF p \notin tr THEN {}                                   \* walk down (146-149)
       ELSE { e.name : e \in { t \in tm : IsPathPrefix(p, t.path) } }  \* DFS of the subtree (151-158)

\* get_match (162-184): <<kind, value>>
GetMatch(tr, tm, fl, q) ==
  LET m == Matching(tr, tm, fl, q) IN
  IF m = {} THEN <<"none", None>>
  ELSE IF Cardinality(m) > 1 THEN <<"ambiguous", None>>
  ELSE <<"one", ValOf(fl, CHOOSE n \in m : TRUE)>>

\* minimal_selector (191-220), the index walk transcribed literally.
\* `start` is None or k meaning python's start = -k.
NoStart == 1000   \* python's `start = None`
RECURSIVE MinWalk(_, _, _, _, _)
MinWalk(tr, tm, rc, i, start) ==
  IF i = Len(rc) THEN start
  ELSE LET node == SubSeq(rc, 1, i)
           s2 == IF NumKeys(tr, tm, node) = 1
                 THEN (IF start = NoStart
                       THEN (IF DevMinimalRoot THEN i ELSE (IF i = 0 THEN 1 ELSE i))
                       ELSE start)
                 ELSE NoStart
       IN MinWalk(tr, tm, rc, i + 1, s2)

Minimal(tr, tm, fl, n) ==
  IF n \notin Keys(fl) THEN <<"KeyError">>
  ELSE LET rc == Rev(n)
           start == MinWalk(tr, tm, rc, 0, NoStart)
       IN IF NumKeys(tr, tm, rc) > 1 THEN n                   \* 218-219
          ELSE IF start = NoStart \/ start = 0 THEN n             \* components[None:] / [-0:]
          ELSE SubSeq(n, Len(n) - start + 1, Len(n))           \* components[-start:]

Observe(tr, tm, fl) ==
  [ items    |-> fl,
    matching |-> { [q |-> q, m |-> Matching(tr, tm, fl, q)] : q \in Queries },
    getmatch |-> { [q |-> q, r |-> GetMatch(tr, tm, fl, q)] : q \in Queries },
    minimal  |-> { [n |-> n, m |-> Minimal(tr, tm, fl, n)] : n \in Names } ]

------------------------------------------------------------------------------
(* Actions: the mutating public methods *)

Empty == [items |-> {}, matching |-> {}, getmatch |-> {}, minimal |-> {}]

Init ==
  /\ alive = {FirstHandle}
  /\ tree = [h \in Handles |-> {<<>>}]
  /\ term = [h \in Handles |-> {}]
  /\ flat = [h \in Handles |-> {}]
  /\ last = "ok"


\* __setitem__ (68-92): setdefault along the reversed components, then '$', then the flat map
Insert(h, n, v) ==
  /\ h \in alive
  /\ LET p  == Rev(n)
         tr == tree[h] \cup PathPrefixes(p)
         tm == { e \in term[h] : e.path # p } \cup {[path |-> p, name |-> n]}
         fl == { e \in flat[h] : e.name # n } \cup {[name |-> n, val |-> v]}
     IN /\ tree' = [tree EXCEPT ![h] = tr]
        /\ term' = [term EXCEPT ![h] = tm]
        /\ flat' = [flat EXCEPT ![h] = fl]
  /\ last' = "ok"
  /\ UNCHANGED alive

\* pruning loop of pop (105-117): bottom-up, a node whose dict became empty is removed
RECURSIVE Prune(_, _, _, _)
Prune(tr, tm, p, k) ==       \* consider node SubSeq(p,1,k), k from Len(p) down to 1
  IF k = 0 THEN tr
  ELSE LET node == SubSeq(p, 1, k) IN
       IF NumKeys(tr, tm, node) = 0
       THEN Prune(tr \ {node}, tm, p, k - 1)
       ELSE Prune(tr, tm, p, k - 1)

Pop(h, n) ==
  /\ h \in alive
  /\ IF n \notin Keys(flat[h])
     THEN /\ last' = "KeyError"                                 \* dict.pop raises first (107)
          /\ UNCHANGED <<alive, tree, term, flat>>
     ELSE LET p  == Rev(n)
              fl == { e \in flat[h] : e.name # n }
              tm == { e \in term[h] : e.path # p }              \* '$' = None, then popped as falsy
              tr == Prune(tree[h], tm, p, Len(p))
          IN /\ tree' = [tree EXCEPT ![h] = tr]
             /\ term' = [term EXCEPT ![h] = tm]
             /\ flat' = [flat EXCEPT ![h] = fl]
             /\ last' = "ok"
             /\ UNCHANGED alive

\* copy (55-60): the copy must be an independent object
Copy(h, g) ==
  /\ h \in alive /\ g \notin alive
  /\ alive' = alive \cup {g}
  /\ tree' = [tree EXCEPT ![g] = tree[h]]
  /\ term' = [term EXCEPT ![g] = term[h]]
  /\ flat' = [flat EXCEPT ![g] = flat[h]]
  /\ last' = "ok"

Clear(h) ==
  /\ h \in alive
  /\ tree' = [tree EXCEPT ![h] = {<<>>}]
  /\ term' = [term EXCEPT ![h] = {}]
  /\ flat' = [flat EXCEPT ![h] = {}]
  /\ last' = "ok"
  /\ UNCHANGED alive

\* dropping a handle lets another copy be made later (python: `del c`)
Drop(h) ==
  /\ h \in alive /\ Cardinality(alive) > 1
  /\ alive' = alive \ {h}
  /\ tree' = [tree EXCEPT ![h] = {<<>>}]
  /\ term' = [term EXCEPT ![h] = {}]
  /\ flat' = [flat EXCEPT ![h] = {}]
  /\ last' = "ok"

Next ==
  \/ \E h \in Handles, n \in Names, v \in Values : Insert(h, n, v)
  \/ \E h \in Handles, n \in Names : Pop(h, n)
  \/ \E h, g \in Handles : Copy(h, g)
  \/ \E h \in Handles : Clear(h)
  \/ \E h \in Handles : Drop(h)

Spec == Init /\ [][Next]_vars

------------------------------------------------------------------------------
(* Declarative properties (C08, map half).  None of them mentions the tree. *)

DeclMatching(K, q) == IF q \in K THEN {q} ELSE { n \in K : SuffixOf(q, n) }
ProperSuffixes(n) == { SubSeq(n, i, Len(n)) : i \in 2..Len(n) }

\* tree terminals = flat-map keys, markers carry the right name, no empty branches
C08_TreeIsMap ==
  \A h \in alive :
    /\ { e.name : e \in term[h] } = Keys(flat[h])
    /\ \A e \in term[h] : e.path = Rev(e.name) /\ e.path \in tree[h]
    /\ \A p \in tree[h] : \A q \in PathPrefixes(p) : q \in tree[h]
    /\ \A p \in tree[h] : p = <<>> \/ NumKeys(tree[h], term[h], p) > 0
    /\ Cardinality(flat[h]) = Cardinality(Keys(flat[h]))

C08_Matching ==
  \A h \in alive : \A q \in Queries :
    Matching(tree[h], term[h], flat[h], q) = DeclMatching(Keys(flat[h]), q)

C08_GetMatch ==
  \A h \in alive : \A q \in Queries :
    LET K == Keys(flat[h])
        D == DeclMatching(K, q)
        r == GetMatch(tree[h], term[h], flat[h], q)
    IN /\ (D = {}) <=> (r[1] = "none")
       /\ (Cardinality(D) > 1) <=> (r[1] = "ambiguous")
       /\ (Cardinality(D) = 1) => (r = <<"one", ValOf(flat[h], CHOOSE n \in D : TRUE)>>)

\* the reported minimal name resolves back to the entry, and no shorter suffix does
C08_Minimal ==
  \A h \in alive : \A n \in Keys(flat[h]) :
    LET K == Keys(flat[h])
        m == Minimal(tree[h], term[h], flat[h], n)
    IN /\ SuffixOf(m, n)
       /\ DeclMatching(K, m) = {n}
       /\ \A s \in ProperSuffixes(n) : Len(s) < Len(m) => DeclMatching(K, s) # {n}

\* what the read-only API answers in a state, for every alive handle; exported with
\* each behaviour and compared with the real objects' answers (both directions)
ObserveAll == [h \in alive |-> Observe(tree[h], term[h], flat[h])]

\* a copy never shares state with its original: an action on one handle leaves
\* every other handle's observations unchanged (value model => structural; bound
\* to the code by conformance, where the real objects may share dicts)
C08_CopyIndependent ==
  [][\A h \in Handles : \A g \in Handles \ {h} :
       (\/ \E n \in Names, v \in Values : Insert(h, n, v)
        \/ \E n \in Names : Pop(h, n)
        \/ Clear(h))
       => <<tree'[g], term'[g], flat'[g]>> = <<tree[g], term[g], flat[g]>>]_vars
=============================================================================
