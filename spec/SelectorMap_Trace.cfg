SPECIFICATION TSpec
CONSTANTS
  Names <- QNames
  Queries <- QQueries
  Handles = {"h1","h2","h3"}
  FirstHandle = "h1"
  Values = {1,2}
  DevMinimalRoot = FALSE
CONSTRAINT Progress
INVARIANT C08_TreeIsMap
INVARIANT C08_Matching
INVARIANT C08_GetMatch
INVARIANT C08_Minimal
POSTCONDITION Verdicts
CHECK_DEADLOCK FALSE
