SPECIFICATION Spec
CONSTANTS
  Alphabet = {"n", "s", "k", "x", "-", "[", "]", "(", ")", "{", "}", ",", ":", "@", "nl"}
  MaxLen = 4
INVARIANT C02_Agree
INVARIANT C02_Layout
CHECK_DEADLOCK FALSE
