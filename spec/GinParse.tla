------------------------------ MODULE GinParse ------------------------------
(***************************************************************************)
(* gin/config.py parsing entry points over abstract statements:            *)
(*   parse_config (2281-2404) as a *streaming* consumer: statements are    *)
(*     applied one by one, an include is processed immediately and         *)
(*     recursively, an error stops the stream (what was applied stays);    *)
(*   parse_config_file (2467-2505): search locations (outer loop) and      *)
(*     readers (inner loop), absolute names bypass the locations;          *)
(*   skip_unknown (_should_skip 839-846, the delegate 855-859, imports     *)
(*     2385-2392);                                                          *)
(*   error locations (utils.try_with_location: one "In file .. line .."    *)
(*     per include level, innermost first; SyntaxError passes unwrapped);  *)
(*   provenance of each binding; recorded imports (only on success).       *)
(* The declarative side is stated on the *flattened* statement sequence.   *)
(*                                                                          *)
(* A statement:                                                             *)
(*   [t |-> "bind", scope, sel, param, val, lines]   val: <<"lit", s>> or    *)
(*        <<"ref", sel>> (a reference to a configurable)                    *)
(*   [t |-> "macro", name, val, lines]                                      *)
(*   [t |-> "block", scope, sel, members: <<<<param, val>>...>>, lines]     *)
(*   [t |-> "import", module, lines]   [t |-> "include", file, lines]       *)
(*   [t |-> "syntax", lines]   text the parser (or the tokenizer) rejects   *)
(***************************************************************************)
EXTENDS Naturals, Sequences, FiniteSets, SequencesExt, TLC

CONSTANTS Known,        \* registered configurables: set of [sel, params, deny]
          Ambiguous,    \* names that match several registered configurables (they are known - never skipped - and rejected)
          Modules,      \* importable module names
          Templates,    \* statements a file may contain
          FileNames,    \* names of the files that exist in the model ("root" is parsed)
          MaxPerFile,   \* [name -> max number of statements]
          SkipForms,    \* values of skip_unknown explored: [mode |-> "false" | "true" | "list", names |-> set of selectors]
          RegLogs,      \* possible histories of add_config_file_search_path calls (sequences of locations, duplicates
                        \* and the explicit current directory "" included)
          EntryForms,   \* sequence of calls of parse_config_files_and_bindings explored per store: [files, bindings, finalize]
          EntryBinding, \* the statement the extra `bindings` argument consists of (when there is one)
          Readers,      \* registered readers (sequence of ids)
          PresentChoices \* possible placements of the files: set of sets of <<location, reader, name>>

VARIABLES files,        \* [FileNames -> sequence of statements]
          skip,         \* the skip_unknown argument of this run
          present,      \* where each file can be found: set of <<location, reader, name>>
          reglog        \* the locations registered so far, in registration order (2448-2464: appended, never reordered)
vars == <<files, skip, present, reglog>>

\* the search order: the current directory, then every registered location in registration order; registering a
\* location twice (or the current directory explicitly) changes nothing about who comes first
Locations == <<"">> \o reglog

KnownSels == { k.sel : k \in Known }
ConfOf(sel) == CHOOSE k \in Known : k.sel = sel

------------------------------------------------------------------------------
(* skip_unknown *)
ShouldSkip(sel, sk) ==          \* _should_skip (839-846): never skip a known name (a name matching several is known)
  IF sel \in KnownSels \cup Ambiguous THEN FALSE
  ELSE IF sk.mode = "false" THEN FALSE
  ELSE IF sk.mode = "true" THEN TRUE
  ELSE sel \in sk.names

\* the value a binding stores: a reference to an unknown configurable becomes a placeholder when skipped,
\* and is an error otherwise (855-859, 708-715)
StoredVal(v, sk) ==
  IF v[1] # "ref" THEN <<"ok", v>>
  ELSE IF v[2] \in Ambiguous THEN <<"KeyError", v>>            \* SelectorMap.get_match: ambiguous selector
  ELSE IF v[2] \in KnownSels THEN <<"ok", v>>
  ELSE IF ShouldSkip(v[2], sk) THEN <<"ok", <<"unk", v[2]>>>>
  ELSE <<"ValueError", v>>

\* validation of a binding key (889-948)
KeyVerdict(sel, param) ==
  IF sel \in Ambiguous THEN "KeyError"
  ELSE IF sel \notin KnownSels THEN "ValueError"
  ELSE IF param \notin ConfOf(sel).params THEN "ValueError"
  ELSE IF param \in ConfOf(sel).deny THEN "ValueError"
  ELSE "ok"

------------------------------------------------------------------------------
(* the parse state *)
Empty == [cfg |-> <<>>, prov |-> {}, imports |-> {}]

Put(cf, b) ==
  IF \E i \in 1..Len(cf) : cf[i].scope = b.scope /\ cf[i].sel = b.sel /\ cf[i].param = b.param
  THEN [i \in 1..Len(cf) |-> IF cf[i].scope = b.scope /\ cf[i].sel = b.sel /\ cf[i].param = b.param THEN b ELSE cf[i]]
  ELSE Append(cf, b)
PutProv(pv, b, file, line) ==
  { x \in pv : ~(x.scope = b.scope /\ x.sel = b.sel /\ x.param = b.param) }
  \cup {[scope |-> b.scope, sel |-> b.sel, param |-> b.param, file |-> file, line |-> line]}

\* one binding (scope, sel, param, val) met at (file, line).  Result [st, status]
BindOne(st, scope, sel, param, val, sk, file, line) ==
  LET sv == StoredVal(val, sk) IN
  IF sv[1] # "ok" THEN [st |-> st, status |-> sv[1]]                        \* raised while the value is parsed
  ELSE IF ShouldSkip(sel, sk) THEN [st |-> st, status |-> "ok"]               \* 2377: the statement is dropped
  ELSE IF KeyVerdict(sel, param) # "ok" THEN [st |-> st, status |-> KeyVerdict(sel, param)]
  ELSE LET b == [scope |-> scope, sel |-> sel, param |-> param, val |-> sv[2]] IN
       [st |-> [st EXCEPT !.cfg = Put(@, b), !.prov = PutProv(@, b, file, line)], status |-> "ok"]

RECURSIVE BlockMembers(_, _, _, _, _, _, _)
BlockMembers(st, s, ms, k, sk, file, line) ==       \* members k.. of block s; member j sits on line + j
  IF k > Len(ms) THEN [st |-> st, status |-> "ok", line |-> line]
  ELSE LET r == BindOne(st, s.scope, s.sel, ms[k][1], ms[k][2], sk, file, line + k) IN
       IF r.status # "ok" THEN [st |-> r.st, status |-> r.status, line |-> line + k]
       ELSE BlockMembers(r.st, s, ms, k + 1, sk, file, line)

------------------------------------------------------------------------------
(* file resolution (2492-2505) *)
IsAbsolute(name) == name \in {"/abs"}
Candidates(name) ==       \* in the order the code tries them: locations outer, readers inner
  LET locs == IF IsAbsolute(name) THEN <<"">> ELSE Locations IN
  FlattenSeq([i \in 1..Len(locs) |-> [j \in 1..Len(Readers) |-> <<locs[i], Readers[j], name>>]])
Resolve(name) ==
  LET c == SelectSeq(Candidates(name), LAMBDA x : x \in present) IN
  IF c = <<>> THEN <<"none">> ELSE <<"found", c[1]>>

------------------------------------------------------------------------------
(* parse_config / parse_config_file as the code streams them.
   Result: [st, status, chain, tree, imps]  chain: <<file, line>> innermost first; tree: include tree *)
RECURSIVE ParseDoc(_, _, _, _, _, _, _), ParseFile(_, _, _, _)

ParseFile(st, name, sk, fuel) ==
  LET r == Resolve(name) IN
  IF r[1] = "none" \/ fuel = 0 THEN [st |-> st, status |-> "IOError", chain |-> <<>>, tree |-> <<>>, imps |-> <<>>]
  ELSE LET d == ParseDoc(st, files[name], 1, 1, sk, name, fuel) IN
       \* 2429-2432: a parse_config call that runs to its end records the imports of its own text
       [st |-> IF d.status = "ok" THEN [d.st EXCEPT !.imports = @ \cup ToSet(d.imps)] ELSE d.st,
        status |-> d.status, chain |-> d.chain,
        tree |-> << [file |-> name, imports |-> d.imps, includes |-> d.tree] >>, imps |-> d.imps]

\* statements k.. of doc (the k-th begins at `line`) of file `file`
ParseDoc(st, doc, k, line, sk, file, fuel) ==
  LET Done(s, status, chain, tree, imps) == [st |-> s, status |-> status, chain |-> chain, tree |-> tree, imps |-> imps]
      rest(s2, tree2, imps2) ==                       \* continue after statement k, merging the remaining results
        LET r == ParseDoc(s2, doc, k + 1, line + doc[k].lines, sk, file, fuel) IN
        Done(r.st, r.status, r.chain, tree2 \o r.tree, imps2 \o r.imps)
  IN
  IF k > Len(doc)
  THEN Done(st, "ok", <<>>, <<>>, <<>>)
  ELSE LET s == doc[k] IN
    CASE s.t = "syntax" -> Done(st, "SyntaxError", <<>>, <<>>, <<>>)          \* no location chain is added (58-59)
      [] s.t = "bind" ->
           LET r == BindOne(st, s.scope, s.sel, s.param, s.val, sk, file, line) IN
           IF r.status # "ok" THEN Done(r.st, r.status, << <<file, line>> >>, <<>>, <<>>) ELSE rest(r.st, <<>>, <<>>)
      [] s.t = "macro" ->
           LET sv == StoredVal(s.val, sk) IN
           IF sv[1] # "ok" THEN Done(st, sv[1], << <<file, line>> >>, <<>>, <<>>)
           ELSE LET b == [scope |-> s.name, sel |-> "gin.macro", param |-> "value", val |-> sv[2]] IN
                rest([st EXCEPT !.cfg = Put(@, b), !.prov = PutProv(@, b, file, line)], <<>>, <<>>)
      [] s.t = "block" ->
           \* values of all members are parsed (references resolved) before the header is handed out
           LET bad == { j \in 1..Len(s.members) : StoredVal(s.members[j][2], sk)[1] # "ok" } IN
           IF bad # {}
           THEN Done(st, "ValueError", << <<file, line + (CHOOSE j \in bad : \A i \in bad : j <= i)>> >>, <<>>, <<>>)
           ELSE IF ShouldSkip(s.sel, sk) THEN rest(st, <<>>, <<>>)              \* header and members dropped
           ELSE IF s.sel \in Ambiguous THEN Done(st, "KeyError", << <<file, line>> >>, <<>>, <<>>)
           ELSE IF s.sel \notin KnownSels THEN Done(st, "ValueError", << <<file, line>> >>, <<>>, <<>>)   \* 2380-2384
           ELSE LET r == BlockMembers(st, s, s.members, 1, sk, file, line) IN
                IF r.status # "ok" THEN Done(r.st, r.status, << <<file, r.line>> >>, <<>>, <<>>) ELSE rest(r.st, <<>>, <<>>)
      [] s.t = "import" ->
           IF s.module \in Modules THEN rest(st, <<>>, <<s.module>>)
           ELSE IF sk.mode # "false" THEN rest(st, <<>>, <<>>)                          \* 2389-2392: skipped with a log line
           ELSE Done(st, "ImportError", << <<file, line>> >>, <<>>, <<>>)
      [] s.t = "include" ->
           LET r == ParseFile(st, s.file, sk, fuel - 1) IN
           IF r.status = "ok" THEN rest(r.st, r.tree, <<>>)
           ELSE IF r.status = "SyntaxError" THEN Done(r.st, r.status, r.chain, <<>>, <<>>)
           ELSE Done(r.st, r.status, r.chain \o << <<file, line>> >>, <<>>, <<>>)    \* one more location level (2394-2396)

\* the entry point.  Imports are recorded per parse_config call that completes: an included file that was parsed to
\* its end has recorded its imports even if the including file fails later; a skipped import is never recorded
ParseTop ==
  LET r == ParseFile(Empty, "root", skip, 4) IN
  [cfg |-> r.st.cfg, prov |-> r.st.prov, status |-> r.status, chain |-> r.chain,
   tree |-> IF r.status = "ok" THEN r.tree ELSE <<>>,
   recorded |-> r.st.imports]

------------------------------------------------------------------------------
(* parse_config_files_and_bindings (2568-2578): every file in order, then the extra bindings, then finalize unless
   told not to - whatever the arguments are (no files, no bindings, None, '' or []).  Result [cfg, status, locked] *)
RECURSIVE EntryFiles(_, _, _)
EntryFiles(st, fs, k) ==
  IF k > Len(fs) THEN [st |-> st, status |-> "ok"]
  ELSE LET r == ParseFile(st, fs[k], skip, 4) IN
       IF r.status # "ok" THEN [st |-> r.st, status |-> r.status] ELSE EntryFiles(r.st, fs, k + 1)
BindingsDoc(b) == IF b = "one" THEN <<EntryBinding>> ELSE <<>>          \* None, '' and [] all mean: nothing more to parse
\* finalize's built-in hooks reject a configuration that still refers to unknown configurables (2853-2868)
HasPlaceholder(cf) == \E i \in 1..Len(cf) : cf[i].val[1] = "unk"
EntryResult(e) ==
  LET a == EntryFiles(Empty, e.files, 1) IN
  IF a.status # "ok" THEN [cfg |-> a.st.cfg, status |-> a.status, locked |-> FALSE]
  ELSE LET b == ParseDoc(a.st, BindingsDoc(e.bindings), 1, 1, skip, "", 4) IN
       IF b.status # "ok" THEN [cfg |-> b.st.cfg, status |-> b.status, locked |-> FALSE]
       ELSE IF ~e.finalize THEN [cfg |-> b.st.cfg, status |-> "ok", locked |-> FALSE]
       ELSE IF HasPlaceholder(b.st.cfg) THEN [cfg |-> b.st.cfg, status |-> "ValueError", locked |-> FALSE]
       ELSE [cfg |-> b.st.cfg, status |-> "ok", locked |-> TRUE]

------------------------------------------------------------------------------
(* The declarative side: the flattened text *)
RECURSIVE Flatten(_, _, _)
\* every statement with the (file, line) it sits on and the include chain that leads to it (innermost first)
Flatten(name, via, fuel) ==
  IF Resolve(name)[1] = "none" \/ fuel = 0 THEN << [t |-> "missing-file", at |-> via] >>
  ELSE LET doc == files[name]
           lineOf(k) == 1 + FoldLeft(LAMBDA a, i : a + doc[i].lines, 0, [i \in 1..(k - 1) |-> i])
       IN FlattenSeq([k \in 1..Len(doc) |->
            IF doc[k].t = "include"
            THEN Flatten(doc[k].file, << <<name, lineOf(k)>> >> \o via, fuel - 1)
            ELSE << [t |-> "stmt", s |-> doc[k], file |-> name, line |-> lineOf(k), via |-> via] >>])

\* effect of one flattened statement, stated without reference to how files nest
ApplyFlat(st, e, sk) ==
  IF e.t = "missing-file" THEN [st |-> st, status |-> "IOError", chain |-> e.at]
  ELSE LET s == e.s IN
    CASE s.t = "syntax" -> [st |-> st, status |-> "SyntaxError", chain |-> <<>>]
      [] s.t = "bind" ->
           LET r == BindOne(st, s.scope, s.sel, s.param, s.val, sk, e.file, e.line) IN
           [st |-> r.st, status |-> r.status, chain |-> << <<e.file, e.line>> >> \o e.via]
      [] s.t = "macro" ->
           LET sv == StoredVal(s.val, sk) IN
           IF sv[1] # "ok" THEN [st |-> st, status |-> sv[1], chain |-> << <<e.file, e.line>> >> \o e.via]
           ELSE LET b == [scope |-> s.name, sel |-> "gin.macro", param |-> "value", val |-> sv[2]] IN
                [st |-> [st EXCEPT !.cfg = Put(@, b), !.prov = PutProv(@, b, e.file, e.line)], status |-> "ok", chain |-> <<>>]
      [] s.t = "block" ->
           LET bad == { j \in 1..Len(s.members) : StoredVal(s.members[j][2], sk)[1] # "ok" } IN
           IF bad # {} THEN [st |-> st, status |-> "ValueError",
                             chain |-> << <<e.file, e.line + (CHOOSE j \in bad : \A i \in bad : j <= i)>> >> \o e.via]
           ELSE IF ShouldSkip(s.sel, sk) THEN [st |-> st, status |-> "ok", chain |-> <<>>]
           ELSE IF s.sel \in Ambiguous THEN [st |-> st, status |-> "KeyError", chain |-> << <<e.file, e.line>> >> \o e.via]
           ELSE IF s.sel \notin KnownSels THEN [st |-> st, status |-> "ValueError", chain |-> << <<e.file, e.line>> >> \o e.via]
           ELSE LET r == BlockMembers(st, s, s.members, 1, sk, e.file, e.line) IN
                [st |-> r.st, status |-> r.status, chain |-> << <<e.file, r.line>> >> \o e.via]
      [] s.t = "import" ->
           IF s.module \in Modules \/ sk.mode # "false" THEN [st |-> st, status |-> "ok", chain |-> <<>>]
           ELSE [st |-> st, status |-> "ImportError", chain |-> << <<e.file, e.line>> >> \o e.via]

RECURSIVE ApplyUntilError(_, _, _, _)
ApplyUntilError(st, flat, k, sk) ==
  IF k > Len(flat) THEN [st |-> st, status |-> "ok", chain |-> <<>>]
  ELSE LET r == ApplyFlat(st, flat[k], sk) IN
       IF r.status # "ok" THEN r ELSE ApplyUntilError(r.st, flat, k + 1, sk)

FlatRoot == Flatten("root", <<>>, 4)
Decl == ApplyUntilError(Empty, FlatRoot, 1, skip)

\* C14 + C16: includes act as in-place inclusion, and a failed parse has applied exactly the statements that
\* precede the failing one in the flattened text; the error keeps its class and names one location per include level
C14_C16_Flatten ==
  LET p == ParseTop IN
  /\ p.cfg = Decl.st.cfg
  /\ p.prov = Decl.st.prov
  /\ p.status = Decl.status
  /\ (p.status \notin {"ok", "SyntaxError"} => p.chain = Decl.chain)

\* C14: the multi-file entry point is the concatenation of its files followed by the extra bindings, and it leaves
\* the configuration locked exactly when everything was applied and finalize was not switched off
EntryFlat(e) ==
  FlattenSeq([k \in 1..Len(e.files) |-> Flatten(e.files[k], <<>>, 4)])
  \o [k \in 1..Len(BindingsDoc(e.bindings)) |-> [t |-> "stmt", s |-> BindingsDoc(e.bindings)[k], file |-> "", line |-> k, via |-> <<>>]]
C14_Entry ==
  \A i \in 1..Len(EntryForms) :
    LET e == EntryForms[i]
        r == EntryResult(e)
        d == ApplyUntilError(Empty, EntryFlat(e), 1, skip)
    IN /\ r.cfg = d.st.cfg
       /\ (d.status # "ok" => r.status = d.status /\ ~r.locked)
       /\ (d.status = "ok" => (r.locked <=> (e.finalize /\ ~HasPlaceholder(d.st.cfg))))

\* C15: parsing with skip_unknown = deleting the statements that target unknown (listed) names
IsDropped(s, sk) ==
  CASE s.t = "bind" -> ShouldSkip(s.sel, sk) /\ StoredVal(s.val, sk)[1] = "ok"
    [] s.t = "block" -> ShouldSkip(s.sel, sk) /\ \A j \in 1..Len(s.members) : StoredVal(s.members[j][2], sk)[1] = "ok"
    [] s.t = "import" -> s.module \notin Modules /\ sk.mode # "false"
    [] OTHER -> FALSE
Reduce(flat, sk) == SelectSeq(flat, LAMBDA e : e.t = "missing-file" \/ ~IsDropped(e.s, sk))
\* after the reduction only the placeholders for unknown references still need the skip argument
C15_Reduced ==
  LET a == ApplyUntilError(Empty, FlatRoot, 1, skip)
      b == ApplyUntilError(Empty, Reduce(FlatRoot, skip), 1, skip)
  IN a.st.cfg = b.st.cfg /\ a.status = b.status
     /\ \A k \in 1..Len(Reduce(FlatRoot, skip)) :
          LET e == Reduce(FlatRoot, skip)[k] IN
          (e.t = "stmt" /\ e.s.t \in {"bind", "block"}) => ~ShouldSkip(e.s.sel, skip) \/ ~IsDropped(e.s, skip)

\* bindings of known configurables are always applied; an unknown name not covered by the list is still an error
C15_KnownApplied ==
  LET p == ParseTop IN
  p.status = "ok" =>
    \A k \in 1..Len(FlatRoot) :
      LET e == FlatRoot[k] IN
      (e.t = "stmt" /\ e.s.t = "bind" /\ e.s.sel \in KnownSels) =>
         \E i \in 1..Len(p.cfg) : p.cfg[i].scope = e.s.scope /\ p.cfg[i].sel = e.s.sel /\ p.cfg[i].param = e.s.param
C15_UnlistedStillError ==
  LET p == ParseTop IN
  (\E k \in 1..Len(FlatRoot) : FlatRoot[k].t = "stmt" /\ FlatRoot[k].s.t \in {"bind", "block"}
        /\ FlatRoot[k].s.sel \notin KnownSels /\ ~ShouldSkip(FlatRoot[k].s.sel, skip)) => p.status # "ok"

\* C14: the file read is the first one in (location-major, reader-minor) order
C14_Resolve ==
  \A n \in FileNames :
    LET r == Resolve(n) IN
    r[1] = "found" =>
      \A c \in present : c[3] = n =>
        LET locs == IF IsAbsolute(n) THEN <<"">> ELSE Locations
            li(x) == CHOOSE i \in 1..Len(locs) : locs[i] = x[1] /\ \A j \in 1..(i - 1) : locs[j] # x[1]
            ri(x) == CHOOSE j \in 1..Len(Readers) : Readers[j] = x[2]
        IN (c[1] \in ToSet(locs)) => (li(r[2]) < li(c) \/ (li(r[2]) = li(c) /\ ri(r[2]) <= ri(c)))

------------------------------------------------------------------------------
Init ==
  /\ files = [n \in FileNames |-> <<>>]
  /\ skip \in SkipForms
  /\ present \in PresentChoices
  /\ reglog \in RegLogs
Next ==
  \E n \in FileNames, t \in Templates :
    /\ Len(files[n]) < MaxPerFile[n]
    /\ (t.t = "include" => t.file # n /\ n \notin {"b", "p"} /\ (n = "a" => t.file # "root"))   \* root -> a -> b / p, no cycles
    /\ files' = [files EXCEPT ![n] = Append(@, t)]
    /\ UNCHANGED <<skip, present, reglog>>
Spec == Init /\ [][Next]_vars
=============================================================================
