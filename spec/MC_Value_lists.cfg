SPECIFICATION Spec
CONSTANTS
  Alphabet = {"n", "[", "]", "(", ")", ",", "nl"}
  MaxLen = 6
INVARIANT C02_Agree
INVARIANT C02_Layout
CHECK_DEADLOCK FALSE
