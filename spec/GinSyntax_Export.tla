-------------------------- MODULE GinSyntax_Export --------------------------
(* Spec -> code for the parser: every token string TLC explores is printed together with the
   specification parser's outcome (one JSON string per line; run with -workers 1).  The harness
   concretises each string with seeded lexemes and layouts and runs the real parser on it. *)
EXTENDS GinSyntax, Json

ExportAll == PrintT(ToJson(<<toks, ParseStmt(toks)>>))
=============================================================================
