SPECIFICATION TSpec
CONSTANTS
  Descriptors <- TraceDescs
  Confs <- TraceConfs
  Scopes <- TraceScopes
  MaxDepth = 4
  KnownDeviations = FALSE
CONSTRAINT Progress
POSTCONDITION Verdicts
CHECK_DEADLOCK FALSE
