--------------------------- MODULE GinThreads_Trace ---------------------------
(* Code -> specification for threads.  $TRACE_FILE: {"programs": {thread: [ops]}, "traces": [[ [thread, action], ... ], ...]}
   recorded from real threads under the deterministic scheduler; every event carries the name of the GinThreads
   action the real code performed at that access (the harness names an access "...WithoutLock" when the lock that
   must protect it was not held by the acting thread - such an event matches no action).  All invariants of
   GinThreads are INVARIANTs here: they are evaluated on the states the real threads went through. *)
EXTENDS GinThreads, Json, IOUtils, TLCExt

Input == JsonDeserialize(IOEnv.TRACE_FILE)
TraceProgs == Input.programs
TraceThreads == DOMAIN TraceProgs
Traces == Input.traces

VARIABLES tid, l
tvars == <<vars, tid, l>>
ASSUME \A i \in 1..Len(Traces) : TLCSet(100 + i, 0)

Ev == Traces[tid][l]
Act(t, a) ==
  CASE a = "Start" -> Start(t) [] a = "WLock" -> WLock(t) [] a = "WMerge" -> WMerge(t) [] a = "WUnlock" -> WUnlock(t)
    [] a = "SLock" -> SLock(t) [] a = "SCheck" -> SCheck(t) [] a = "SConstruct" -> SConstruct(t) [] a = "SStore" -> SStore(t)
    [] a = "SUnlock" -> SUnlock(t) [] a = "WBody" -> WBody(t) [] a = "RLock" -> RLock(t) [] a = "RIter" -> RIter(t)
    [] a = "RUnlock" -> RUnlock(t) [] OTHER -> FALSE

TStep == /\ l <= Len(Traces[tid]) /\ l' = l + 1 /\ UNCHANGED tid
         /\ Act(Ev[1], Ev[2])
TInit == Init /\ tid \in 1..Len(Traces) /\ l = 1
TSpec == TInit /\ [][TStep]_tvars
Progress == TLCSet(100 + tid, IF TLCGet(100 + tid) > l THEN TLCGet(100 + tid) ELSE l)
Verdicts == \A i \in 1..Len(Traces) : PrintT(<<"VERDICT", i, TLCGet(100 + i), Len(Traces[i]) + 1>>)
=============================================================================
