--------------------------- MODULE GinParse_Export ---------------------------
(* Spec -> code: along simulated walks, every state (file store, skip_unknown form, file placement) is printed
   with the specification's result of parsing "root" (one JSON string per line; -workers 1). *)
EXTENDS MC_GinParse, Json
ExportAll == PrintT(ToJson([files |-> files, skip |-> [mode |-> skip.mode, names |-> SetToSeq(skip.names)],
                            present |-> SetToSeq(present), reglog |-> reglog,
                            result |-> [ParseTop EXCEPT !.recorded = SetToSeq(@)],
                            resolved |-> [n \in FileNames |-> Resolve(n)],
                            entries |-> [i \in 1..Len(EntryForms) |-> [form |-> EntryForms[i], result |-> EntryResult(EntryForms[i])]]]))
=============================================================================
