------------------------------- MODULE LockInd -------------------------------
(* Unbounded strengthening of C12 for Apalache: the lock machine of GinCore (locked, the stack of lock states saved
   by open unlock_config blocks) with a ghost `shadow` recording, for every open block, the lock state that held
   when it was entered, and ghosts recording what the last exit restored and what it should have restored.
   IndInv is inductive (checked with --length=1 from IndInit: arbitrary, not only reachable, states with up to 6
   nested blocks - GinCore's exhaustive models stop at 2) and implies Restore: leaving an unlock_config block, by
   either path and whatever finalize / clear_config / nested blocks did inside it, re-establishes exactly the lock
   state that held on entry.  Guard: a mutation attempted while locked changes nothing. *)
EXTENDS Integers, Sequences, Apalache

VARIABLES
  \* @type: Bool;
  locked,
  \* @type: Seq(Bool);
  usaved,
  \* @type: Seq(Bool);
  shadow,
  \* @type: Bool;
  restoredTo,
  \* @type: Bool;
  expected,
  \* @type: Int;
  store,
  \* @type: Bool;
  rejected

Init == locked = FALSE /\ usaved = <<>> /\ shadow = <<>> /\ restoredTo = FALSE /\ expected = FALSE /\ store = 0 /\ rejected = FALSE

UnlockEnter ==
  /\ usaved' = Append(usaved, locked) /\ shadow' = Append(shadow, locked)
  /\ locked' = FALSE
  /\ UNCHANGED <<restoredTo, expected, store, rejected>>
UnlockExit ==
  /\ Len(usaved) > 0
  /\ locked' = usaved[Len(usaved)]
  /\ restoredTo' = usaved[Len(usaved)] /\ expected' = shadow[Len(shadow)]
  /\ usaved' = SubSeq(usaved, 1, Len(usaved) - 1) /\ shadow' = SubSeq(shadow, 1, Len(shadow) - 1)
  /\ UNCHANGED <<store, rejected>>
\* finalize: rejected when locked, or by a hook (ok = FALSE): nothing changes; otherwise it locks
Finalize(ok) ==
  /\ IF locked \/ ~ok THEN UNCHANGED <<locked, store>> /\ rejected' = TRUE
     ELSE locked' = TRUE /\ UNCHANGED store /\ rejected' = FALSE
  /\ UNCHANGED <<usaved, shadow, restoredTo, expected>>
Clear == locked' = FALSE /\ store' = 0 /\ rejected' = FALSE /\ UNCHANGED <<usaved, shadow, restoredTo, expected>>
\* bind_parameter / parse_config / registration: the guard
Mutate ==
  /\ IF locked THEN UNCHANGED store /\ rejected' = TRUE ELSE store' = store + 1 /\ rejected' = FALSE
  /\ UNCHANGED <<locked, usaved, shadow, restoredTo, expected>>

Next == UnlockEnter \/ UnlockExit \/ (\E ok \in BOOLEAN : Finalize(ok)) \/ Clear \/ Mutate

IndInv ==
  /\ Len(shadow) = Len(usaved)
  /\ \A i \in DOMAIN usaved : shadow[i] = usaved[i]
  /\ restoredTo = expected

IndInit == locked = Gen(1) /\ usaved = Gen(6) /\ shadow = Gen(6) /\ restoredTo = Gen(1) /\ expected = Gen(1)
           /\ store = Gen(1) /\ rejected = Gen(1) /\ IndInv

Restore == restoredTo = expected
\* action invariant: while locked the store only changes by being cleared
GuardA == (locked /\ store' # store) => (store' = 0 /\ ~locked')
=============================================================================
