--------------------------- MODULE ScopeStackInd ---------------------------
(* Unbounded strengthening of C09 (sequential half) for Apalache: the scope stack of GinCore with a ghost
   `shadow` that records, for every open config_scope block, the scope that was active when it was entered.
   IndInv is inductive (checked with --length=1 from IndInit) and implies Restore: whenever a block is left,
   by either path, the active scope becomes exactly the scope that was active at the matching entry, at any
   nesting depth. *)
EXTENDS Integers, Sequences, Apalache

VARIABLES
  \* @type: Seq(Seq(Str));
  stack,
  \* @type: Seq(Seq(Str));
  shadow,
  \* @type: Seq(Str);
  restoredTo,
  \* @type: Seq(Str);
  expected

\* @type: Set(Str);
Names == {"a", "b"}
\* @type: Set(Seq(Str));
Scopes == {<<>>, <<"a">>, <<"b">>, <<"a", "b">>, <<"b", "a">>}

Cur == stack[Len(stack)]

Init == stack = << <<>> >> /\ shadow = <<>> /\ restoredTo = <<>> /\ expected = <<>>

EnterName(n) == /\ stack' = Append(stack, Append(Cur, n)) /\ shadow' = Append(shadow, Cur) /\ UNCHANGED <<restoredTo, expected>>
EnterList(s) == /\ stack' = Append(stack, s) /\ shadow' = Append(shadow, Cur) /\ UNCHANGED <<restoredTo, expected>>
EnterInvalid == UNCHANGED <<stack, shadow, restoredTo, expected>>      \* pushed, rejected, popped by the finally
Exit ==
  /\ Len(stack) > 1
  /\ stack' = SubSeq(stack, 1, Len(stack) - 1)
  /\ shadow' = SubSeq(shadow, 1, Len(shadow) - 1)
  /\ restoredTo' = stack[Len(stack) - 1]
  /\ expected' = shadow[Len(shadow)]

Next == \/ \E n \in Names : EnterName(n)
        \/ \E s \in Scopes : EnterList(s)
        \/ EnterInvalid
        \/ Exit

IndInv ==
  /\ Len(stack) >= 1
  /\ Len(shadow) = Len(stack) - 1
  /\ stack[1] = <<>>
  /\ \A i \in DOMAIN shadow : shadow[i] = stack[i]
  /\ restoredTo = expected

\* arbitrary (not only reachable) states with at most 5 open blocks and scopes of at most 4 components
IndInit == stack = Gen(5) /\ shadow = Gen(5) /\ restoredTo = Gen(4) /\ expected = Gen(4) /\ IndInv

Restore == restoredTo = expected
=============================================================================
