SPECIFICATION Spec
CONSTANTS
  Confs <- ClrMiniConfs
  InitRegs <- ClrMiniRegs
  ScopeNames = {"s1"}
  MaxScopeDepth = 1
  MaxStack = 1
  BindVals <- ClrMiniVals
  MaxBindings = 2
  Enabled = {"Bind", "Call", "Clear", "SingletonDirect"}
  NameOrder <- NamesClr
  HookUniverse = {}
  BindApis = {"tuple"}
  FreshConfs = {}
  BindFilter <- ClrMiniFilter
  ConstVals <- MacConstVals1
  QuerySpellings = {}
  ConstNames <- ClrMiniConstNames
  CallMaxExtra = 0
  CallExtraKw = {}
  CallsWithReq = FALSE
  DevKwEval = FALSE
CONSTRAINT ExportConstraint
CHECK_DEADLOCK FALSE
