SPECIFICATION Spec
CONSTANTS
  Confs <- SerConfs
  InitRegs <- SerRegs
  ScopeNames = {"a", "b", "W"}
  MaxScopeDepth = 2
  MaxStack = 2
  BindVals <- SerVals
  MaxBindings = 7
  Enabled = {"Bind", "Call", "EnterScope", "ExitScope"}
  NameOrder <- NamesSer
  HookUniverse = {}
  BindApis = {"tuple", "string", "text"}
  FreshConfs = {}
  BindFilter <- SerFilter
  ConstVals = {}
  QuerySpellings = {}
  ConstNames = {}
  CallMaxExtra = 0
  CallExtraKw = {}
  CallsWithReq = FALSE
  DevKwEval = FALSE
CONSTRAINT ExportConstraint
CHECK_DEADLOCK FALSE
