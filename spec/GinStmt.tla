------------------------------ MODULE GinStmt ------------------------------
(***************************************************************************)
(* gin/config_parser.py at the level of statements: parse_statement with   *)
(* its statement queue, the one-token advance after NEWLINE, the           *)
(* _within_block flag, _parse_selector (with the raw-text whitespace       *)
(* check), _parse_import, _parse_binding_block and the key splitting of    *)
(* parse_binding_key, transcribed over a token cursor (values are parsed   *)
(* by GinSyntax!PValue).                                                    *)
(*                                                                          *)
(* TLC builds a config text statement by statement: every step appends the *)
(* token rendering of one statement template under one layout choice       *)
(* (leading blank / comment lines, trailing comment, flat or block form,   *)
(* comment after a block header, blank / comment lines inside a block) and *)
(* appends what the statement spells to `expected`.  The invariant         *)
(* C03_RoundTrip says that the transcribed parser recovers exactly         *)
(* `expected` from the tokens, for every such text; malformed selectors    *)
(* make the whole text a syntax error.                                      *)
(*                                                                          *)
(* Tokens: NAMEs "a" "b" "c" "import" "from" "as" "include"; a NAME or     *)
(* separator that has whitespace before it inside a selector is written    *)
(* with a trailing "_" ("a_", "/_", "._"); "/" "." "=" ":" operators;      *)
(* "n" NUMBER, "s" STRING and brackets as in GinSyntax; "nl" = NL or       *)
(* COMMENT; "NEWLINE" "INDENT" "DEDENT".                                   *)
(***************************************************************************)
EXTENDS GinSyntax

CONSTANTS Templates,   \* statement templates that may be appended
          MaxStmts     \* number of statements per text

VARIABLES expected,   \* what the text spells: sequence of statements, or ErrDoc once malformed
          pend,       \* a block is open: the tokenizer emits its DEDENT just before the next statement's
                      \* first token (after that statement's leading blank / comment lines) or at end of text
          nstm
svars == <<toks, expected, pend, nstm>>

Names == {"a", "b", "c", "import", "from", "as", "include"}
Spaced(t) == t \o "_"
SpNames == { Spaced(t) : t \in Names }
IsName(t) == t \in Names \/ t \in SpNames
Unsp(t) == CASE t \in SpNames -> CHOOSE n \in Names : Spaced(n) = t
             [] t = "/_" -> "/" [] t = "._" -> "." [] OTHER -> t
IsSpaced(t) == t \in SpNames \/ t \in {"/_", "._"}
IsSep(t) == t \in {"/", ".", "/_", "._"}

------------------------------------------------------------------------------
(* cursor helpers *)
RECURSIVE SkipTop(_, _), SkipBlk(_, _)
SkipTop(T, i) == IF At(T, i) \in {"nl", "INDENT", "DEDENT"} THEN SkipTop(T, i + 1) ELSE i   \* 308-312, not within block
SkipBlk(T, i) == IF At(T, i) = "nl" THEN SkipBlk(T, i + 1) ELSE i                            \* within block

\* _parse_selector (358-415).  Result <<"ok", parts, next>> or <<"err">>; parts: the token strings
RECURSIVE SelLoop(_, _, _, _, _)
SelLoop(T, i, parity, parts, bad) ==
  LET t == At(T, i)
      takes == (parity = 0 /\ IsName(t)) \/ (parity = 1 /\ IsSep(t))
  IN IF takes
     THEN SelLoop(T, i + 1, 1 - parity, Append(parts, Unsp(t)), bad \/ (IsSpaced(t) /\ parts # <<>>))
     ELSE <<parts, i, bad>>

\* components between separators, for the format check (402-410)
RECURSIVE SplitOn(_, _, _, _)
SplitOn(parts, sep, cur, acc) ==
  IF parts = <<>> THEN Append(acc, cur)
  ELSE IF Head(parts) = sep THEN SplitOn(Tail(parts), sep, <<>>, Append(acc, cur))
  ELSE SplitOn(Tail(parts), sep, Append(cur, Head(parts)), acc)

\* a dotted name: NAME ('.' NAME)*   (MODULE_RE);  an identifier: one NAME
DottedOK(p) == Len(p) % 2 = 1 /\ \A i \in 1..Len(p) : (i % 2 = 1) = (p[i] \in Names)
IdentOK(p) == Len(p) = 1 /\ p[1] \in Names

PSelector(T, i, scoped, periodsInScope, inBlock) ==
  IF ~IsName(At(T, i)) THEN Err                                        \* 'Unexpected token.'
  ELSE LET r      == SelLoop(T, i, 0, <<>>, FALSE)
           parts  == r[1]
           scopes == SplitOn(parts, "/", <<>>, <<>>)
           okfmt  == /\ \A k \in 1..(Len(scopes) - 1) : IF periodsInScope THEN DottedOK(scopes[k]) ELSE IdentOK(scopes[k])
                     /\ DottedOK(scopes[Len(scopes)])
                     /\ (scoped \/ Len(scopes) = 1)
           nxt    == IF inBlock THEN SkipBlk(T, r[2]) ELSE SkipTop(T, r[2])
       IN IF r[3] \/ ~okfmt THEN Err ELSE <<"ok", parts, nxt>>

\* parse_scoped_selector / parse_binding_key (577-596): rsplit on the last '/' and the last '.'
LastIndexOf(p, sep) == IF \E i \in 1..Len(p) : p[i] = sep THEN CHOOSE i \in 1..Len(p) : p[i] = sep /\ \A j \in (i + 1)..Len(p) : p[j] # sep ELSE 0
KeyOf(parts) ==
  LET s  == LastIndexOf(parts, "/")
      sc == IF s = 0 THEN <<>> ELSE SubSeq(parts, 1, s - 1)
      rest == SubSeq(parts, s + 1, Len(parts))
      d  == LastIndexOf(rest, ".")
  IN [scope |-> sc, selector |-> IF d = 0 THEN rest ELSE SubSeq(rest, 1, d - 1),
      arg |-> IF d = 0 THEN <<>> ELSE SubSeq(rest, d + 1, Len(rest))]
ScopedOf(parts) ==
  LET s == LastIndexOf(parts, "/") IN
  [scope |-> IF s = 0 THEN <<>> ELSE SubSeq(parts, 1, s - 1), selector |-> SubSeq(parts, s + 1, Len(parts))]

\* _parse_identifier (417-422): one NAME, then _advance
PIdent(T, i, inBlock) ==
  IF At(T, i) \notin Names /\ At(T, i) \notin SpNames THEN Err
  ELSE <<"ok", Unsp(At(T, i)), IF inBlock THEN SkipBlk(T, i + 1) ELSE SkipTop(T, i + 1)>>

\* _parse_import (424-442)
PImport(T, i, kw) ==
  LET m == PSelector(T, i, FALSE, FALSE, FALSE) IN
  IF m[1] # "ok" THEN Err
  ELSE IF kw = "import"
  THEN IF Unsp(At(T, m[3])) = "as"
       THEN LET a == PIdent(T, m[3] + 1, FALSE) IN
            IF a[1] # "ok" THEN Err ELSE <<"ok", [t |-> "import", module |-> m[2], isfrom |-> FALSE, alias |-> <<a[2]>>], a[3]>>
       ELSE <<"ok", [t |-> "import", module |-> m[2], isfrom |-> FALSE, alias |-> <<>>], m[3]>>
  ELSE IF Unsp(At(T, m[3])) # "import" THEN Err                        \* "Expected 'import'."
  ELSE LET sub == PIdent(T, m[3] + 1, FALSE) IN
       IF sub[1] # "ok" THEN Err
       ELSE LET mod == m[2] \o <<".", sub[2]>> IN
            IF Unsp(At(T, sub[3])) = "as"
            THEN LET a == PIdent(T, sub[3] + 1, FALSE) IN
                 IF a[1] # "ok" THEN Err ELSE <<"ok", [t |-> "import", module |-> mod, isfrom |-> TRUE, alias |-> <<a[2]>>], a[3]>>
            ELSE <<"ok", [t |-> "import", module |-> mod, isfrom |-> TRUE, alias |-> <<>>], sub[3]>>

\* _parse_binding_block (444-476): header already consumed up to ':'
RECURSIVE PMembers(_, _, _, _)
PMembers(T, i, hdr, acc) ==
  IF At(T, i) = "DEDENT" THEN <<"ok", acc, i>>
  ELSE LET a == PIdent(T, i, TRUE) IN
       IF a[1] # "ok" THEN Err
       ELSE IF At(T, a[3]) # "=" THEN Err
       ELSE LET v == PValue(T, a[3] + 1) IN
            IF v[1] # "ok" THEN Err
            ELSE IF At(T, v[3]) # "NEWLINE" THEN Err
            ELSE PMembers(T, SkipBlk(T, v[3] + 1), hdr,
                          Append(acc, [t |-> "bind", scope |-> hdr.scope, selector |-> hdr.selector, arg |-> <<a[2]>>, val |-> v[2]]))

PBlockBody(T, i, parts) ==  \* i just after ':'
  LET j1 == SkipBlk(T, i) IN                                            \* skip COMMENT
  IF At(T, j1) # "NEWLINE" THEN Err
  ELSE LET j2 == SkipBlk(T, j1 + 1) IN
       IF At(T, j2) # "INDENT" THEN Err                                 \* 'Expected indentation.'
       ELSE LET j3  == SkipBlk(T, j2 + 1)
                hdr == ScopedOf(parts)
                ms  == PMembers(T, j3, hdr, <<>>)
            IN IF ms[1] # "ok" THEN Err
               ELSE <<"ok", <<[t |-> "block", scope |-> hdr.scope, selector |-> hdr.selector]>> \o ms[2], ms[3]>>

\* parse_statement (220-267): one statement (a block yields its header and its members through the queue).
\* Result <<"ok", statements, next>> | <<"eof">> | <<"err">>
PStatement(T, i0) ==
  LET i == SkipTop(T, i0) IN
  IF At(T, i) = END THEN <<"eof">>
  ELSE LET sel == PSelector(T, i, TRUE, FALSE, FALSE) IN
       IF sel[1] # "ok" THEN Err
       ELSE LET j == sel[3]
                body ==
                  IF At(T, j) = "="
                  THEN LET v == PValue(T, j + 1) IN
                       IF v[1] # "ok" THEN Err
                       ELSE LET k == KeyOf(sel[2]) IN
                            <<"ok", <<[t |-> "bind", scope |-> k.scope, selector |-> k.selector, arg |-> k.arg, val |-> v[2]]>>, v[3]>>
                  ELSE IF At(T, j) = ":" THEN PBlockBody(T, j + 1, sel[2])
                  ELSE IF sel[2] \in {<<"import">>, <<"from">>} THEN
                       LET r == PImport(T, j, sel[2][1]) IN IF r[1] # "ok" THEN Err ELSE <<"ok", <<r[2]>>, r[3]>>
                  ELSE IF sel[2] = <<"include">> THEN
                       (IF At(T, j) = "s" THEN <<"ok", <<[t |-> "include"]>>, SkipTop(T, j + 1)>> ELSE Err)
                  ELSE Err                                               \* "expected ':' or '='"
            IN IF body[1] # "ok" THEN Err
               ELSE IF At(T, body[3]) \notin {"NEWLINE", "DEDENT", END} THEN Err    \* 'Expected newline.'
               ELSE <<"ok", body[2], IF At(T, body[3]) = END THEN body[3] ELSE body[3] + 1>>

ErrDoc == <<[t |-> "err"]>>     \* the whole text is a syntax error
RECURSIVE ParseFrom(_, _, _)
ParseFrom(T, i, acc) ==
  LET r == PStatement(T, i) IN
  IF r[1] = "eof" THEN acc
  ELSE IF r[1] = "err" THEN ErrDoc
  ELSE ParseFrom(T, r[3], acc \o r[2])
ParseAll(T) == ParseFrom(T, 1, <<>>)

------------------------------------------------------------------------------
(* Statement templates and their renderings.  A template:
     [t: "bind", sel: selector tokens, val: value tokens, shape: value shape]
     [t: "blockable", hdr: header selector tokens (scope/selector), args: <<names>>]   rendered flat or as a block
     [t: "import" | "from", ...]  [t: "include"]  [t: "bad", toks: tokens]  (malformed: the text must be rejected) *)

Pre(lay) == CASE lay.pre = "blank" -> <<"nl">> [] lay.pre = "comment" -> <<"nl", "nl">> [] OTHER -> <<>>
Trail(lay) == IF lay.trail THEN <<"nl">> ELSE <<>>       \* a trailing comment is a COMMENT token before NEWLINE
Inner(lay) == IF lay.inner THEN <<"nl", "nl">> ELSE <<>>  \* blank / comment lines inside a block

Layouts == [pre : {"none", "blank", "comment"}, trail : BOOLEAN, block : BOOLEAN, hdrc : BOOLEAN, inner : BOOLEAN]

RenderStmt(st, lay, dd) ==      \* dd: <<"DEDENT">> if a block is awaiting its DEDENT, else <<>>
  CASE st.t = "bind" -> Pre(lay) \o dd \o st.sel \o <<"=">> \o st.val \o Trail(lay) \o <<"NEWLINE">>
    [] st.t = "blockable" ->
         IF lay.block
         THEN Pre(lay) \o dd \o st.hdr \o <<":">> \o (IF lay.hdrc THEN <<"nl">> ELSE <<>>) \o <<"NEWLINE">> \o Inner(lay) \o <<"INDENT">>
              \o FlattenSeq([k \in 1..Len(st.args) |-> <<st.args[k], "=", "n">> \o Trail(lay) \o <<"NEWLINE">> \o Inner(lay)])
         ELSE FlattenSeq([k \in 1..Len(st.args) |-> Pre(lay) \o (IF k = 1 THEN dd ELSE <<>>) \o st.hdr \o <<".", st.args[k], "=", "n">> \o Trail(lay) \o <<"NEWLINE">>])
    [] st.t = "import" -> Pre(lay) \o dd \o <<"import">> \o st.mod \o (IF st.alias # <<>> THEN <<"as">> \o st.alias ELSE <<>>) \o Trail(lay) \o <<"NEWLINE">>
    [] st.t = "from" -> Pre(lay) \o dd \o <<"from">> \o st.mod \o <<"import", st.name>> \o (IF st.alias # <<>> THEN <<"as">> \o st.alias ELSE <<>>) \o Trail(lay) \o <<"NEWLINE">>
    [] st.t = "include" -> Pre(lay) \o dd \o <<"include", "s">> \o Trail(lay) \o <<"NEWLINE">>
    [] st.t = "bad" -> Pre(lay) \o dd \o st.toks \o <<"NEWLINE">>

\* what the statement spells (independent of layout; a block spells its header plus the same bindings as the flat form)
Spells(st, lay) ==
  CASE st.t = "bind" -> <<[t |-> "bind", scope |-> st.scope, selector |-> st.selector, arg |-> st.arg, val |-> st.shape]>>
    [] st.t = "blockable" ->
         (IF lay.block THEN <<[t |-> "block", scope |-> st.scope, selector |-> st.selector]>> ELSE <<>>)
         \o [k \in 1..Len(st.args) |-> [t |-> "bind", scope |-> st.scope, selector |-> st.selector, arg |-> <<st.args[k]>>, val |-> <<"num">>]]
    [] st.t = "import" -> <<[t |-> "import", module |-> st.mod, isfrom |-> FALSE, alias |-> st.alias]>>
    [] st.t = "from" -> <<[t |-> "import", module |-> st.mod \o <<".", st.name>>, isfrom |-> TRUE, alias |-> st.alias]>>
    [] st.t = "include" -> <<[t |-> "include"]>>
    [] st.t = "bad" -> <<>>

SInit == toks = <<>> /\ expected = <<>> /\ pend = FALSE /\ nstm = 0
SNext ==
  /\ nstm < MaxStmts
  /\ \E st \in Templates, lay \in Layouts :
       /\ (st.t # "blockable" => ~lay.block /\ ~lay.hdrc /\ ~lay.inner)     \* those choices exist for blocks only
       /\ (~lay.block => ~lay.hdrc /\ ~lay.inner)
       /\ toks' = toks \o RenderStmt(st, lay, IF pend THEN <<"DEDENT">> ELSE <<>>)
       /\ pend' = ((st.t = "blockable" /\ lay.block) \/ (st.t = "bad" /\ st.opens))
       /\ expected' = IF expected = ErrDoc \/ st.t = "bad" THEN ErrDoc ELSE expected \o Spells(st, lay)
       /\ nstm' = nstm + 1
SSpec == SInit /\ [][SNext]_svars

\* the parser recovers exactly the statements the text spells; malformed texts are rejected
\* the complete text in a state: an open block gets its DEDENT at end of input
Text == toks \o (IF pend THEN <<"DEDENT">> ELSE <<>>)
C03_RoundTrip == ParseAll(Text) = expected

\* the block form and the flat form spell the same bindings
Bindings(stmts) == IF stmts = ErrDoc THEN stmts ELSE SelectSeq(stmts, LAMBDA s : s.t # "block")
=============================================================================
