SPECIFICATION Spec
CONSTANTS
  Confs <- Shapes
  InitRegs <- MidRegs
  ScopeNames = {"a", "ab"}
  MaxScopeDepth = 2
  MaxStack = 2
  BindVals <- BV12
  MaxBindings = 2
  Enabled = {"Bind", "EnterScope", "ExitScope"}
  NameOrder <- Names6
  HookUniverse = {}
  BindApis = {"tuple"}
  FreshConfs = {}
  ConstNames = {}
  CallsWithReq = FALSE
  DevKwEval = FALSE
VIEW ViewStore
INVARIANT C01_Deliver
INVARIANT C01_NoLeak
CHECK_DEADLOCK FALSE
