SPECIFICATION Spec
CONSTANTS
  Confs <- ClrMiniConfs
  InitRegs <- ClrMiniRegs
  ScopeNames = {"s1"}
  MaxScopeDepth = 1
  MaxStack = 1
  BindVals <- ClrMiniVals
  MaxBindings = 2
  Enabled = {"Bind", "Call", "Clear", "Finalize", "DefineConstant", "Import", "SingletonDirect"}
  NameOrder <- NamesClr
  HookUniverse = {}
  BindApis = {"tuple"}
  FreshConfs = {}
  BindFilter <- ClrMiniFilter
  ConstVals <- MacConstVals1
  QuerySpellings = {}
  ConstNames <- ClrMiniConstNames
  CallMaxExtra = 0
  CallExtraKw = {}
  CallsWithReq = FALSE
  DevKwEval = FALSE
  ScenKind = "clear"
VIEW ViewNoOutUnordered
CONSTRAINT ExportScen
CHECK_DEADLOCK FALSE
