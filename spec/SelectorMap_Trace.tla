------------------------- MODULE SelectorMap_Trace -------------------------
(* Code -> specification.  $TRACE_FILE holds a JSON array of traces recorded
   from the real gin.selector_map.SelectorMap; each trace is an array of
   events {op, h, g, n, v, last, obs}.  Every event must be explained by the
   corresponding SelectorMap action, must leave the logged result in `last`,
   and every logged answer of the read-only API must equal the specification's
   operator evaluated in the successor state.  All declarative invariants of
   SelectorMap are INVARIANTs of this config, i.e. they are evaluated on the
   states the real code went through.  One TLC run validates the whole batch
   (tid picks the trace); the furthest matched position per trace is kept in
   TLC register 100+tid and printed by the POSTCONDITION. *)
EXTENDS MC_SelectorMap, Json, IOUtils, TLCExt

Traces == JsonDeserialize(IOEnv.TRACE_FILE)

VARIABLES tid, l
tvars == <<vars, tid, l>>

ASSUME \A i \in 1..Len(Traces) : TLCSet(100 + i, 0)

Ev == Traces[tid][l]

\* logged answers (JSON arrays) against the operators in the successor state
ObsMatches(o, tr, tm, fl) ==
  /\ { <<e[1], e[2]>> : e \in ToSet(o.items) } = { <<e.name, e.val>> : e \in fl }
  /\ \A e \in ToSet(o.matching) : ToSet(e[2]) = Matching(tr, tm, fl, e[1])
  /\ \A e \in ToSet(o.getmatch) : LET r == GetMatch(tr, tm, fl, e[1]) IN
        /\ e[2] = r[1]
        /\ r[1] = "one" => e[3] = r[2]
  /\ \A e \in ToSet(o.minimal) : e[2] = Minimal(tr, tm, fl, e[1])

TStep ==
  /\ l <= Len(Traces[tid])
  /\ l' = l + 1
  /\ UNCHANGED tid
  /\ \/ Ev.op = "Insert" /\ Insert(Ev.h, Ev.n, Ev.v)
     \/ Ev.op = "Pop"    /\ Pop(Ev.h, Ev.n)
     \/ Ev.op = "Copy"   /\ Copy(Ev.h, Ev.g)
     \/ Ev.op = "Clear"  /\ Clear(Ev.h)
     \/ Ev.op = "Drop"   /\ Drop(Ev.h)
  /\ last' = Ev.last
  /\ DOMAIN Ev.obs = alive'
  /\ \A h \in alive' : ObsMatches(Ev.obs[h], tree'[h], term'[h], flat'[h])

TInit == Init /\ tid \in 1..Len(Traces) /\ l = 1
TSpec == TInit /\ [][TStep]_tvars

Progress == TLCSet(100 + tid, IF TLCGet(100 + tid) > l THEN TLCGet(100 + tid) ELSE l)

Verdicts == \A i \in 1..Len(Traces) : PrintT(<<"VERDICT", i, TLCGet(100 + i), Len(Traces[i]) + 1>>)
=============================================================================
