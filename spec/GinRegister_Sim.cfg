SPECIFICATION Spec
CONSTANTS
  Requests <- Reqs
  MaxSteps = 6
CONSTRAINT ExportConstraint
CHECK_DEADLOCK FALSE
