SPECIFICATION Spec
CONSTANTS
  Descriptors <- Descs
  Confs = {"f", "g"}
  Scopes = {"", "a/b"}
  MaxDepth = 3
  KnownDeviations = FALSE
INVARIANT C17_SameClass
INVARIANT C17_Attrs
INVARIANT C17_Traceback
INVARIANT C17_Message
CHECK_DEADLOCK FALSE
