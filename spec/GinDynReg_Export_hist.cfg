SPECIFICATION Spec
CONSTANTS
  Attr <- Tree
  ModuleOf <- Mods
  ExtraLoads <- Extra
  SkipForms <- HistSkips
  Templates <- TplHist
  PrevDocs <- Prevs
  MaxStmts = 3
CONSTRAINT ExportAll
CHECK_DEADLOCK FALSE
