------------------------------- MODULE GinExc -------------------------------
(***************************************************************************)
(* Exception propagation through configurables: gin_wrapper's except       *)
(* clause (config.py 1606-1630) and utils.augment_exception_message_and_   *)
(* reraise (utils.py 21-41).  A call nest of configurables (each under its *)
(* scope) is entered; an exception described by a class descriptor is      *)
(* raised in the innermost body or while Gin evaluates a reference for a   *)
(* frame; every wrapper frame it crosses re-raises a proxy that extends    *)
(* the message; finally the caller catches it.                              *)
(*                                                                          *)
(* A class descriptor abstracts what matters to the proxy mechanism:       *)
(*   ctor     "none" | "init-required" | "new-required" | "unproxiable"    *)
(*   attrs    subset of {"dict", "slots", "cmember", "args"}: how the      *)
(*            public data of an instance is stored                          *)
(*   isExc    subclass of Exception (else only BaseException)              *)
(* KnownDeviations = TRUE models what the code does today for the recorded *)
(* findings (C-level members and args are not forwarded; a required        *)
(* __new__ argument makes the proxy construction itself fail).             *)
(***************************************************************************)
EXTENDS Naturals, Sequences, FiniteSets, TLC

CONSTANTS Descriptors, Confs, Scopes, MaxDepth, KnownDeviations

VARIABLES stack,   \* call nest: sequence of [conf, scope], outermost first
          exc,     \* the exception in flight, or None
          phase,   \* "calling" | "raising" | "caught"
          out
vars == <<stack, exc, phase, out>>

None == [cls |-> "none"]

Init == stack = <<>> /\ exc = None /\ phase = "calling" /\ out = [op |-> "none"]

\* enter one more configurable (called from the body of the previous one, or evaluated as a reference for it)
Enter(c, s) ==
  /\ phase = "calling" /\ Len(stack) < MaxDepth
  /\ stack' = Append(stack, [conf |-> c, scope |-> s])
  /\ out' = [op |-> "Enter", conf |-> c, scope |-> s]
  /\ UNCHANGED <<exc, phase>>

\* the innermost body (or the evaluation of a reference for the innermost frame) raises
Raise(d, site) ==
  /\ phase = "calling" /\ stack # <<>>
  /\ exc' = [cls |-> d.id, orig |-> d, suffixes |-> <<>>, readable |-> d.attrs, traceback |-> TRUE, sameClass |-> TRUE]
  /\ phase' = "raising"
  /\ out' = [op |-> "Raise", desc |-> d, site |-> site]
  /\ UNCHANGED stack

\* one wrapper frame (1606-1630): `except Exception` only
Propagate ==
  /\ phase = "raising" /\ stack # <<>>
  /\ LET f == stack[Len(stack)] IN
     exc' = IF ~exc.orig.isExc THEN exc                                        \* BaseException passes untouched
            \* a class of which no second instance can be built from the original's args (its __new__ wants something
            \* else): no proxy is possible, the original itself goes on - same object, traceback intact, message as it was
            ELSE IF exc.orig.ctor = "unproxiable" THEN exc
            ELSE IF KnownDeviations /\ exc.orig.ctor = "new-required" /\ exc.sameClass
                 THEN [exc EXCEPT !.cls = "TypeError", !.sameClass = FALSE,      \* finding F14: ExceptionProxy() itself fails
                                  !.readable = {}, !.suffixes = <<>>]
            ELSE IF ~exc.sameClass THEN [exc EXCEPT !.suffixes = Append(@, [conf |-> f.conf, scope |-> f.scope])]
            ELSE [exc EXCEPT !.suffixes = Append(@, [conf |-> f.conf, scope |-> f.scope]),
                             !.readable = IF KnownDeviations THEN @ \ {"cmember", "args"} ELSE @]   \* finding F13
  /\ stack' = SubSeq(stack, 1, Len(stack) - 1)
  /\ out' = [op |-> "Propagate"]
  /\ UNCHANGED phase

Catch ==
  /\ phase = "raising" /\ stack = <<>>
  /\ phase' = "caught"
  /\ out' = [op |-> "Catch", exc |-> exc]
  /\ UNCHANGED <<stack, exc>>

Next == \/ \E c \in Confs, s \in Scopes : Enter(c, s)
        \/ \E d \in Descriptors, site \in {"body", "reference"} : Raise(d, site)
        \/ Propagate
        \/ Catch
Spec == Init /\ [][Next]_vars

------------------------------------------------------------------------------
(* C17, on what the caller catches *)
C17_SameClass == phase = "caught" => exc.cls = exc.orig.id                  \* same class, same except clauses
C17_Attrs == phase = "caught" => exc.readable = exc.orig.attrs             \* every public attribute reads the same
C17_Traceback == phase = "caught" => exc.traceback
\* only the message is extended: one suffix per configurable frame crossed, innermost first; none for non-Exceptions
C17_Message ==
  phase = "caught" =>
    IF exc.orig.isExc /\ exc.orig.ctor # "unproxiable" THEN Len(exc.suffixes) = Len(out.exc.suffixes) /\ Len(exc.suffixes) >= 1
    ELSE exc.suffixes = <<>>
=============================================================================
