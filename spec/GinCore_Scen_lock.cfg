SPECIFICATION Spec
CONSTANTS
  Confs <- LockConfs
  InitRegs <- LockRegs
  ScopeNames = {"a"}
  MaxScopeDepth = 1
  MaxStack = 1
  BindVals <- BV1
  MaxBindings = 1
  Enabled = {"Bind", "Finalize", "Unlock", "RegisterHook", "Register", "Clear"}
  NameOrder <- NamesPQ
  HookUniverse <- Hooks
  BindApis = {"tuple"}
  FreshConfs <- LockFresh
  ConstNames = {}
  BindFilter <- AnyBind
  ConstVals = {}
  QuerySpellings = {}
  CallMaxExtra = 1
  CallExtraKw = {"z"}
  CallsWithReq = FALSE
  DevKwEval = FALSE
  ScenKind = "lock"
VIEW ViewUnordered
CONSTRAINT HooksBound
CONSTRAINT ExportScen
CHECK_DEADLOCK FALSE
