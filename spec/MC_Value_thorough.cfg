SPECIFICATION Spec
CONSTANTS
  Alphabet = {"n", "s", "e", "y", "k", "x", "-", "[", "]", "(", ")", "{", "}", ",", ":", "@", "%", "nl"}
  MaxLen = 5
INVARIANT C02_Agree
INVARIANT C02_Layout
CHECK_DEADLOCK FALSE
