SPECIFICATION Spec
CONSTANTS
  Attr <- Tree
  ModuleOf <- Mods
  ExtraLoads <- Extra
  SkipForms <- DynSkips
  Templates <- Tpl
  MaxStmts = 6




CONSTRAINT ExportAll
CHECK_DEADLOCK FALSE
