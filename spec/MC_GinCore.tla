---------------------------- MODULE MC_GinCore ----------------------------
(* Constant families for the GinCore sub-models. *)
EXTENDS GinCore

L1 == <<"lit", "1">>
L2 == <<"lit", "2">>
D(p) == <<"lit", "d_" \o p>>       \* the default of parameter p

Base == [ sel |-> <<"m","f">>, kind |-> "fn", pos |-> <<>>, npd |-> 0, kwo |-> <<>>, kwd |-> {},
          va |-> FALSE, vk |-> FALSE, dflt |-> {}, allow |-> {"*"}, deny |-> {}, body |-> "record",
          api |-> "configurable" ]

\* signature shapes for C01: named positionals p,q with 0..2 defaults, keyword-only k
\* with/without default, *args, **kwargs; function / class
B2S(b) == IF b THEN "1" ELSE "0"
Shape(kind, np, nd, kw, kwdef, va, vk) ==
  LET pos == SubSeq(<<"p","q">>, 1, np) IN
  [ Base EXCEPT !.sel = <<"m", kind \o "_" \o ToString(np) \o ToString(nd) \o B2S(kw) \o B2S(kwdef) \o B2S(va) \o B2S(vk)>>,
                !.kind = kind, !.pos = pos, !.npd = nd,
                !.kwo = IF kw THEN <<"k">> ELSE <<>>,
                !.kwd = IF kw /\ kwdef THEN {"k"} ELSE {},
                !.va = va, !.vk = vk,
                !.dflt = { <<pos[i], D(pos[i])>> : i \in { j \in 1..np : j > np - nd } }
                         \cup (IF kw /\ kwdef THEN {<<"k", D("k")>>} ELSE {}) ]

ShapeArgs == { t \in {"fn", "cls"} \X (0..2) \X (0..2) \X BOOLEAN \X BOOLEAN \X BOOLEAN \X BOOLEAN :
                 t[3] <= t[2] /\ (~t[4] => ~t[5]) }
Shapes == { Shape(t[1], t[2], t[3], t[4], t[5], t[6], t[7]) : t \in ShapeArgs }

\* one descriptor is registered per behaviour
ShapeQuick == { Shape("fn", 2, 1, TRUE, FALSE, FALSE, FALSE), Shape("cls", 2, 1, TRUE, TRUE, TRUE, TRUE),
                Shape("fn", 1, 0, FALSE, FALSE, TRUE, FALSE), Shape("cls", 2, 2, FALSE, FALSE, FALSE, TRUE) }

OneShapeRegs == { {c} : c \in Shapes }
QuickRegs == { {c} : c \in ShapeQuick }
BV12 == {L1, L2}
Names6 == <<"k", "p", "q", "self", "value", "z">>
=============================================================================
