---------------------------- MODULE MC_GinCore ----------------------------
(* Constant families for the GinCore sub-models. *)
EXTENDS GinCore

LNone == <<"lit", "None">>
L1 == <<"lit", "1">>
L2 == <<"lit", "2">>
D(p) == <<"lit", "d_" \o p>>       \* the default of parameter p

Base == [ deco |-> FALSE, twin |-> <<>>, sel |-> <<"m","f">>, kind |-> "fn", pos |-> <<>>, npd |-> 0, kwo |-> <<>>, kwd |-> {},
          va |-> FALSE, vk |-> FALSE, dflt |-> {}, allow |-> {"*"}, deny |-> {}, body |-> "record",
          api |-> "configurable" ]

\* signature shapes for C01: named positionals p,q with 0..2 defaults, keyword-only k
\* with/without default, *args, **kwargs; function / class
B2S(b) == IF b THEN "1" ELSE "0"
Shape(kind, np, nd, kw, kwdef, va, vk) ==
  LET pos == SubSeq(<<"p","q">>, 1, np) IN
  [ Base EXCEPT !.sel = <<"m", kind \o "_" \o ToString(np) \o ToString(nd) \o B2S(kw) \o B2S(kwdef) \o B2S(va) \o B2S(vk)>>,
                !.kind = kind,
                !.api = IF va THEN "external" ELSE IF vk THEN "register" ELSE "configurable", !.pos = pos, !.npd = nd,
                !.kwo = IF kw THEN <<"k">> ELSE <<>>,
                !.kwd = IF kw /\ kwdef THEN {"k"} ELSE {},
                !.va = va, !.vk = vk,
                !.dflt = { <<pos[i], D(pos[i])>> : i \in { j \in 1..np : j > np - nd } }
                         \cup (IF kw /\ kwdef THEN {<<"k", D("k")>>} ELSE {}) ]

ShapeArgs == { t \in {"fn", "cls"} \X (0..2) \X (0..2) \X BOOLEAN \X BOOLEAN \X BOOLEAN \X BOOLEAN :
                 t[3] <= t[2] /\ (~t[4] => ~t[5]) }
Shapes == { Shape(t[1], t[2], t[3], t[4], t[5], t[6], t[7]) : t \in ShapeArgs }

\* one descriptor is registered per behaviour
ShapeQuick == { Shape("fn", 2, 1, TRUE, FALSE, FALSE, FALSE), Shape("cls", 1, 1, TRUE, TRUE, TRUE, TRUE) }
ShapeMid == { Shape("fn", 2, 1, TRUE, FALSE, FALSE, FALSE), Shape("cls", 2, 1, TRUE, TRUE, TRUE, TRUE),
              Shape("fn", 1, 0, FALSE, FALSE, TRUE, FALSE), Shape("cls", 2, 2, FALSE, FALSE, FALSE, TRUE),
              Shape("fn", 2, 0, FALSE, FALSE, FALSE, TRUE), Shape("cls", 0, 0, TRUE, FALSE, TRUE, FALSE) }
MidRegs == { {c} : c \in ShapeMid }

OneShapeRegs == { {c} : c \in Shapes }
QuickRegs == { {c} : c \in ShapeQuick }
------------------------------------------------------------------------------
(* C10: REQUIRED in signatures *)
ReqShape(tag, kind, pos, npd, kwo, kwd, va, vk, dflt) ==
  [ Base EXCEPT !.sel = <<"m", tag>>, !.kind = kind, !.pos = pos, !.npd = npd, !.kwo = kwo, !.kwd = kwd,
                !.va = va, !.vk = vk, !.dflt = dflt ]
ReqShapes == {
  ReqShape("r1", "fn",  <<"p","q">>, 0, <<>>, {}, FALSE, FALSE, {}),
  ReqShape("r2", "fn",  <<"p","q">>, 1, <<"k">>, {"k"}, FALSE, FALSE, {<<"q", Req>>, <<"k", Req>>}),
  ReqShape("r3", "cls", <<"p","q">>, 2, <<>>, {}, TRUE, TRUE, {<<"p", D("p")>>, <<"q", Req>>}),
  ReqShape("r4", "fn",  <<"p">>, 0, <<"k">>, {}, TRUE, TRUE, {}),
  ReqShape("r5", "cls", <<"p","q">>, 1, <<"k">>, {"k"}, FALSE, TRUE, {<<"q", D("q")>>, <<"k", Req>>}),
  [ReqShape("r6", "cls", <<"p","q">>, 1, <<"k">>, {"k"}, FALSE, FALSE, {<<"q", Req>>, <<"k", Req>>}) EXCEPT !.api = "external"],
  [ReqShape("r7", "cls", <<"p">>, 1, <<>>, {}, TRUE, TRUE, {<<"p", Req>>}) EXCEPT !.api = "register"],
  [ReqShape("r8", "fn", <<"p","q">>, 1, <<>>, {}, FALSE, FALSE, {<<"q", Req>>}) EXCEPT !.api = "external"],
  \* two keyword-only parameters: the list of missing names is in signature order whatever order they were found in
  ReqShape("r9", "fn",  <<"p">>, 0, <<"q","k">>, {"k"}, FALSE, FALSE, {<<"k", Req>>}),
  \* the same function registered a second time under another name (twin: the selector that owns the function), with
  \* its own lists; and a function that was decorated before it was registered
  [ReqShape("r9b", "fn", <<"p">>, 0, <<"q","k">>, {"k"}, FALSE, FALSE, {<<"k", Req>>}) EXCEPT !.twin = <<"m","r9">>, !.deny = {"q"}, !.api = "external"],
  [ReqShape("r10", "fn", <<"p","q">>, 1, <<>>, {}, FALSE, FALSE, {<<"q", D("q")>>}) EXCEPT !.deco = TRUE, !.api = "external"] }
ReqRegs == { {c} : c \in { x \in ReqShapes : x.twin = <<>> } } \cup { { x \in ReqShapes : x.sel[2] \in {"r9", "r9b"} } }
ReqRegsQuick == { {c} : c \in { x \in ReqShapes : x.sel[2] \in {"r2", "r3", "r9"} } }

(* C11: allow / deny lists *)
ListShape(tag, kind, vk, allow, deny) ==
  [ Base EXCEPT !.sel = <<"m", tag>>, !.kind = kind, !.pos = <<"p","q">>, !.npd = 2, !.kwo = <<"k">>, !.kwd = {"k"},
                !.vk = vk, !.allow = allow, !.deny = deny,
                !.dflt = {<<"p", D("p")>>, <<"q", D("q")>>, <<"k", D("k")>>} ]
ListShapes == {
  ListShape("a0", "fn",  FALSE, {"*"}, {}),
  ListShape("a1", "fn",  FALSE, {"p","k"}, {}),
  ListShape("a2", "cls", FALSE, {"*"}, {"q"}),
  ListShape("a3", "fn",  TRUE,  {"*"}, {"k"}),
  ListShape("a4", "cls", TRUE,  {"q"}, {}),
  ListShape("a5", "fn",  TRUE,  {"p","z"}, {}),
  [ListShape("a6", "fn", FALSE, {"*"}, {"q"}) EXCEPT !.deco = TRUE, !.api = "external"],
  [ListShape("a7", "fn", FALSE, {"*"}, {}) EXCEPT !.va = TRUE] }         \* STAR args but no STARSTAR kw: `args` is no parameter name    \* decorated before it was registered
ListRegs == { {c} : c \in ListShapes }
ListRegs2 == { {a, b} : a \in ListShapes, b \in { x \in ListShapes : x.sel[2] \in {"a1", "a2"} } }
AllApis == {"tuple", "string", "text", "block"}

(* C12: hooks.  f is reachable as "f" and "m.f"; g as "g" *)
LockF == [ Base EXCEPT !.sel = <<"m","f">>, !.pos = <<"p","q">>, !.npd = 2, !.dflt = {<<"p", D("p")>>, <<"q", D("q")>>},
                        !.deny = {"q"} ]
LockG == [ Base EXCEPT !.sel = <<"n","g">>, !.kind = "cls", !.pos = <<"p">>, !.npd = 1, !.dflt = {<<"p", D("p")>>} ]
LockH == [ Base EXCEPT !.sel = <<"n","h">>, !.pos = <<"p">>, !.npd = 1, !.dflt = {<<"p", D("p")>>}, !.api = "external" ]
HookKey(scope, sp, p, v) == [scope |-> scope, spelling |-> sp, param |-> p, val |-> v]
Hooks == {
  [id |-> "h1", rets |-> {HookKey(<<>>, <<"f">>, "p", L1)}, raises |-> FALSE],
  [id |-> "h2", rets |-> {HookKey(<<>>, <<"m","f">>, "p", L2)}, raises |-> FALSE],       \* same parameter, other spelling
  [id |-> "h3", rets |-> {HookKey(<<"a">>, <<"f">>, "p", L2), HookKey(<<>>, <<"g">>, "p", L1)}, raises |-> FALSE],
  [id |-> "h4", rets |-> {}, raises |-> TRUE],
  [id |-> "h5", rets |-> {HookKey(<<>>, <<"f">>, "q", L1)}, raises |-> FALSE],             \* denylisted
  [id |-> "h6", rets |-> {HookKey(<<>>, <<"nope">>, "p", L1)}, raises |-> FALSE],          \* unknown configurable
  [id |-> "h7", rets |-> {}, raises |-> FALSE] }                                            \* returns None
LockRegs == { {LockF, LockG} }

ScopeF == [ Base EXCEPT !.sel = <<"m","f">>, !.pos = <<"p">>, !.npd = 1, !.dflt = {<<"p", D("p")>>} ]
ScopeConfs == {ScopeF}
ScopeRegs == {{ScopeF}}
------------------------------------------------------------------------------
(* C04: references.  consumer f(p, q=...) -> producer g(x=...) -> producer h(x=...) *)
AnyBind(sc, c, v) == TRUE
RefF == [ Base EXCEPT !.sel = <<"m","f">>, !.pos = <<"p","q">>, !.npd = 2, !.dflt = {<<"p", D("p")>>, <<"q", D("q")>>} ]
RefG == [ Base EXCEPT !.sel = <<"m","g">>, !.pos = <<"x">>, !.npd = 1, !.dflt = {<<"x", D("x")>>}, !.api = "external" ]
RefH == [ Base EXCEPT !.sel = <<"m","h">>, !.kind = "cls", !.pos = <<"x">>, !.npd = 1, !.dflt = {<<"x", D("x")>>}, !.api = "register" ]
\* a consumer with a keyword-only parameter and a catch-all: caller keywords for such names override bindings too
RefK == [ Base EXCEPT !.sel = <<"m","k">>, !.pos = <<"p">>, !.npd = 1, !.kwo = <<"k">>, !.kwd = {"k"}, !.vk = TRUE,
                      !.dflt = {<<"p", D("p")>>, <<"k", D("k")>>} ]
RefConfs == {RefF, RefG, RefH}
RefRegs == {RefConfs}
RefConfsK == {RefF, RefG, RefH, RefK}
RefRegsK == {RefConfs, {RefK, RefG, RefH}}
RefRegsKOnly == {{RefK, RefG, RefH}}
R(sel, sc, ev) == <<"ref", sel, sc, ev>>
GCall == R(<<"m","g">>, <<>>, "call")
GCallA == R(<<"m","g">>, <<"a">>, "call")
GBare == R(<<"m","g">>, <<>>, "bare")
GBareA == R(<<"m","g">>, <<"a">>, "bare")
HCall == R(<<"m","h">>, <<>>, "call")
HCallB == R(<<"m","h">>, <<"b">>, "call")
\* every two-level nesting of list / tuple / dict around a literal or an evaluated reference
Wrap(kind, v) == IF kind = "dict" THEN <<"dict", << <<L1, v>> >>>> ELSE <<kind, <<v, L2>>>>
Nest2 == { Wrap(o, Wrap(i, leaf)) : o \in {"list", "tuple", "dict"}, i \in {"list", "tuple", "dict"}, leaf \in {L1, GCall} }
GCallB == R(<<"m","g">>, <<"b">>, "call")
RefValsF == Nest2 \cup { L1, GCall, GCallA, GBare, GBareA, HCall,
              <<"dict", << <<GCallA, L1>>, <<GCallB, L2>> >>>>,       \* references as dict keys: two scopes, two entries
              <<"list", <<GCall, L1, GCall>>>>,
              <<"dict", << <<L1, <<"tuple", <<GCallA, HCallB>>>>>> >>>>,
              <<"tuple", << <<"list", <<GBare>>>>, GCall >>>> }
RefValsG == { L1, L2, HCall, HCallB, <<"list", <<HCall>>>> }
RefValsH == { L1, L2 }
RefValsK == { L1, GCall, GCallA, <<"list", <<GCall, L1, GCall>>>> }
RefFilter(sc, c, v) ==
  \/ c.sel = <<"m","k">> /\ v \in RefValsK
  \/ c.sel = <<"m","f">> /\ v \in RefValsF
  \/ c.sel = <<"m","g">> /\ v \in RefValsG
  \/ c.sel = <<"m","h">> /\ v \in RefValsH
RefBindVals == RefValsF \cup RefValsG \cup RefValsH
\* scenario model: scoped references against every ambient scope (also one that ends with the reference's own scope)
RefScopeVals == { GCallA, GBareA, <<"list", <<GCallA, GCall>>>>, Wrap("tuple", Wrap("tuple", GCallA)), Wrap("dict", Wrap("tuple", GCall)) }
RefScopeFilter(sc, c, v) == c.sel = <<"m","f">> /\ v \in RefScopeVals /\ sc = <<>>
RefBindValsQuick == (RefValsF \ Nest2) \cup RefValsG \cup RefValsH \cup { Wrap("tuple", Wrap("tuple", GCall)), Wrap("dict", Wrap("list", GCall)) }
RefFilterQuick(sc, c, v) == RefFilter(sc, c, v) /\ v \in RefBindValsQuick
NamesRefs == <<"p", "q", "x">>
NamesRefsK == <<"k", "p", "q", "x", "z">>
RefSpellings == { <<"m","f">>, <<"f">>, <<"g">>, <<"h">>, <<"nope">> }

------------------------------------------------------------------------------
(* C05: macros and constants *)
GinMacro == [ Base EXCEPT !.sel = <<"gin","macro">>, !.pos = <<"value">>, !.body = "macro", !.api = "builtin" ]
GinConstant == [ Base EXCEPT !.sel = <<"gin","constant">>, !.body = "const", !.api = "builtin" ]
GinSingleton == [ Base EXCEPT !.sel = <<"gin","singleton">>, !.pos = <<"constructor">>, !.body = "singleton", !.api = "builtin" ]
MacF == [ Base EXCEPT !.sel = <<"m","f">>, !.pos = <<"p","q">>, !.npd = 2, !.dflt = {<<"p", D("p")>>, <<"q", D("q")>>} ]
MacG == [ Base EXCEPT !.sel = <<"m","g">>, !.pos = <<"x">>, !.npd = 1, !.dflt = {<<"x", D("x")>>}, !.api = "external" ]
MacConfs == {MacF, MacG, GinMacro, GinConstant}
MacRegs == {MacConfs}
Pct(n) == <<"pct", n>>
O1 == <<"nonlit", "o1">>
O2 == <<"nonlit", "o2">>
MacConstNames == { <<"X">>, <<"m","X">>, <<"n","m","X">>, <<"n","Y">> }
MacConstVals == {O1, O2}
MacValsF == { L1, Pct(<<"X">>), Pct(<<"m","X">>), Pct(<<"Y">>), Pct(<<"W">>),
              R(<<"gin","macro">>, <<"W">>, "bare"), R(<<"gin","macro">>, <<"W">>, "call"),    \* the macro referenced explicitly
              R(<<"gin","macro">>, <<"W","X">>, "call"),                                            \* a scope-like macro name
              <<"list", <<Pct(<<"W">>), Pct(<<"W">>)>>>> }
MacValsM == { L1, L2, R(<<"m","g">>, <<>>, "call") }
MacValsG == { L1 }
MacFilter(sc, c, v) ==
  \/ c.sel = <<"m","f">> /\ v \in MacValsF /\ sc = <<>>
  \/ c.sel = <<"gin","macro">> /\ v \in MacValsM /\ sc \in {<<"W">>, <<"X">>}
  \/ c.sel = <<"m","g">> /\ v \in MacValsG /\ sc = <<>>
MacBindVals == MacValsF \cup MacValsM \cup MacValsG
\* scenario model: a macro definition and the ways of referring to it
MacRefVals == { L1, Pct(<<"W">>), R(<<"gin","macro">>, <<"W">>, "bare"), R(<<"gin","macro">>, <<"W">>, "call"), R(<<"gin","macro">>, <<"X">>, "call"),
                R(<<"gin","macro">>, <<"W","X">>, "call"),         \* the scope-like macro name W/X: bound only if W/X itself is
                <<"dict", << <<Pct(<<"W">>), L1>>, <<Pct(<<"X">>), L2>> >>>> }   \* two macros as the keys of one dict
MacRefFilter(sc, c, v) ==
  \/ c.sel = <<"m","f">> /\ v \in MacRefVals /\ sc = <<>>
  \/ c.sel = <<"gin","macro">> /\ v = L1 /\ sc \in {<<"W">>, <<"X">>}
\* constant abbreviations only (scenario export for C05)
MacPctVals == { Pct(<<"X">>), Pct(<<"m","X">>), Pct(<<"Y">>) }
MacPctFilter(sc, c, v) == c.sel = <<"m","f">> /\ v \in MacPctVals /\ sc = <<>>
MacConstVals1 == {O1, LNone}        \* an object, and None (a constant may hold any value)
\* macro definitions live under the macro's name as scope
MacScopeNames == {"W", "X"}
NamesMac == <<"p", "q", "value", "x">>

------------------------------------------------------------------------------
(* C07: operative config.  f has an allowlisted subset and a non-literal default; g is a class *)
N1 == <<"nonlit", "n1">>
OpF == [ Base EXCEPT !.sel = <<"m","f">>, !.pos = <<"p","q","r">>, !.npd = 3, !.kwo = <<"k">>, !.kwd = {"k"},
                      !.dflt = {<<"p", D("p")>>, <<"q", D("q")>>, <<"r", N1>>, <<"k", D("k")>>}, !.deny = {"q"} ]
OpG == [ Base EXCEPT !.sel = <<"n","g">>, !.kind = "cls", !.pos = <<"x">>, !.npd = 1, !.vk = TRUE,
                      !.dflt = {<<"x", D("x")>>}, !.api = "external" ]
OpH == [ Base EXCEPT !.sel = <<"n","h">>, !.pos = <<"x","y">>, !.npd = 1, !.dflt = {<<"y", D("y")>>},
                      !.allow = {"y"}, !.api = "register" ]
\* a method of the class n.g: called on an instance that the class's configurable builds
OpM == [ Base EXCEPT !.sel = <<"n","g","s">>, !.kind = "meth", !.pos = <<"p","q">>, !.npd = 2,
                      !.dflt = {<<"p", D("p")>>, <<"q", N1>>}, !.api = "register", !.deny = {"q"} ]
\* a second class of the same name in another module, with a method of the same name: their sections need their modules
OpG2 == [ Base EXCEPT !.sel = <<"m","g">>, !.kind = "cls", !.pos = <<"x">>, !.npd = 1, !.dflt = {<<"x", D("x")>>}, !.api = "register" ]
OpM2 == [ Base EXCEPT !.sel = <<"m","g","s">>, !.kind = "meth", !.pos = <<"p">>, !.npd = 1, !.dflt = {<<"p", D("p")>>}, !.api = "register" ]
\* ... and a second class in the *same* module with a method of the same name
OpK == [ Base EXCEPT !.sel = <<"n","k">>, !.kind = "cls", !.pos = <<"x">>, !.npd = 1, !.dflt = {<<"x", D("x")>>}, !.api = "register" ]
OpMK == [ Base EXCEPT !.sel = <<"n","k","s">>, !.kind = "meth", !.pos = <<"p">>, !.npd = 1, !.dflt = {<<"p", D("p")>>}, !.api = "register" ]
OpConfs == {OpF, OpG, OpH, GinMacro, OpM, GinSingleton, OpG2, OpM2, OpK, OpMK}
OpRegs == {OpConfs}
OpValsF == { L1, L2, N1, R(<<"n","g">>, <<>>, "call"), R(<<"n","g">>, <<"a">>, "call"), Pct(<<"W">>),
             R(<<"gin","singleton">>, <<"s1">>, "call"),        \* a singleton: its section (and its constructor) belong to the record
             <<"list", <<L1, R(<<"n","g">>, <<>>, "bare")>>>> }
OpValsG == { L1, L2 }
OpValsM == { L1, L2 }
OpFilter(sc, c, v) ==
  \/ c.sel = <<"m","f">> /\ v \in OpValsF
  \/ c.sel \in {<<"n","g">>, <<"n","h">>, <<"n","g","s">>, <<"m","g">>, <<"m","g","s">>, <<"n","k">>, <<"n","k","s">>} /\ v \in OpValsG
  \/ c.sel = <<"gin","macro">> /\ v \in OpValsM /\ sc = <<"W">>
  \/ c.sel = <<"gin","singleton">> /\ v = R(<<"n","g">>, <<>>, "bare") /\ sc = <<"s1">>
OpBindVals == OpValsF \cup OpValsG \cup OpValsM \cup { R(<<"n","g">>, <<>>, "bare") }
NamesOp == <<"constructor", "k", "p", "q", "r", "value", "x", "y", "z">>

------------------------------------------------------------------------------
(* C20: clear_config after any history *)
ClrConfs == {MacF, MacG, GinMacro, GinConstant, GinSingleton, LockH}
ClrRegs == {{MacF, MacG, GinMacro, GinConstant, GinSingleton}}
S1Call == R(<<"gin","singleton">>, <<"s1">>, "call")
ClrValsF == { L1, L2, Pct(<<"X">>), Pct(<<"W">>), S1Call, R(<<"m","g">>, <<>>, "call") }
ClrFilter(sc, c, v) ==
  \/ c.sel = <<"m","f">> /\ v \in ClrValsF /\ sc \in {<<>>, <<"W">>}
  \/ c.sel = <<"gin","macro">> /\ v \in {L1, L2} /\ sc \in {<<"W">>, <<"X">>}
  \/ c.sel = <<"m","g">> /\ v \in {L1} /\ sc = <<>>
  \/ c.sel = <<"gin","singleton">> /\ v = R(<<"m","g">>, <<>>, "bare") /\ sc = <<"s1">>
ClrBindVals == ClrValsF \cup {R(<<"m","g">>, <<>>, "bare")}
\* the scenario model for clear_config: one value per store kind, small branching
ClrMiniFilter(sc, c, v) ==
  \/ c.sel = <<"m","f">> /\ v \in {L1, S1Call} /\ sc = <<>>
  \/ c.sel = <<"gin","singleton">> /\ v = R(<<"m","g">>, <<>>, "bare") /\ sc = <<"s1">>
ClrMiniF == [ Base EXCEPT !.sel = <<"m","f">>, !.pos = <<"p">>, !.npd = 1, !.dflt = {<<"p", D("p")>>} ]
ClrMiniG == [ Base EXCEPT !.sel = <<"m","g">>, !.api = "external" ]
ClrMiniConfs == {ClrMiniF, ClrMiniG, GinSingleton}
ClrMiniRegs == {ClrMiniConfs}
\* nested singletons: the constructor of one singleton is configured with a reference to another singleton
ClrMiniGx == [ Base EXCEPT !.sel = <<"m","g">>, !.pos = <<"x">>, !.npd = 1, !.dflt = {<<"x", D("x")>>}, !.api = "external" ]
ClrMiniH == [ Base EXCEPT !.sel = <<"m","h">>, !.api = "register" ]
D1Call == R(<<"gin","singleton">>, <<"d1">>, "call")
NestConfs == {ClrMiniF, ClrMiniGx, ClrMiniH, GinSingleton}
NestRegs == {NestConfs}
NestVals == { L1, S1Call, D1Call, R(<<"m","g">>, <<>>, "bare"), R(<<"m","h">>, <<>>, "bare") }
NestFilter(sc, c, v) ==
  \/ c.sel = <<"m","f">> /\ v = S1Call /\ sc = <<>> 
  \/ c.sel = <<"gin","singleton">> /\ v = R(<<"m","g">>, <<>>, "bare") /\ sc = <<"s1">>
  \/ c.sel = <<"m","g">> /\ v = D1Call /\ sc = <<>>
  \/ c.sel = <<"gin","singleton">> /\ v = R(<<"m","h">>, <<>>, "bare") /\ sc = <<"d1">>
ClrMiniVals == { L1, S1Call, R(<<"m","g">>, <<>>, "bare") }
ClrMiniConstNames == { <<"X">>, <<"m","X">> }      \* one shadows the other: definable together only in interactive mode
ClrHooks == {
  [id |-> "h1", rets |-> {HookKey(<<>>, <<"f">>, "p", L1)}, raises |-> FALSE],
  [id |-> "h4", rets |-> {}, raises |-> TRUE],
  [id |-> "h7", rets |-> {}, raises |-> FALSE] }
NamesClr == <<"constructor", "p", "q", "value", "x">>

------------------------------------------------------------------------------
(* C06: serialisation.  names that are suffixes of one another / share a last component *)
SerA == [ Base EXCEPT !.sel = <<"m","f">>, !.pos = <<"p","q">>, !.npd = 2, !.dflt = {<<"p", D("p")>>, <<"q", D("q")>>} ]
SerB == [ Base EXCEPT !.sel = <<"n","f">>, !.pos = <<"p">>, !.npd = 1, !.dflt = {<<"p", D("p")>>}, !.api = "external" ]
SerC == [ Base EXCEPT !.sel = <<"n","m","f">>, !.kind = "cls", !.pos = <<"p">>, !.npd = 1, !.dflt = {<<"p", D("p")>>}, !.api = "register" ]
SerD == [ Base EXCEPT !.sel = <<"x","Gee">>, !.pos = <<"p","q">>, !.npd = 2, !.vk = TRUE, !.dflt = {<<"p", D("p")>>, <<"q", D("q")>>} ]
SerE == [ Base EXCEPT !.sel = <<"aa","gee">>, !.pos = <<"p">>, !.npd = 1, !.dflt = {<<"p", D("p")>>} ]
\* names that differ only in case (the documented order ignores case: ties must still be broken canonically)
SerE2 == [ Base EXCEPT !.sel = <<"aa","Gee">>, !.pos = <<"p">>, !.npd = 1, !.dflt = {<<"p", D("p")>>}, !.api = "external" ]
\* two classes of one name in different modules, each with a method of one name; and a class whose method is unique
SerT1 == [ Base EXCEPT !.sel = <<"x","T">>, !.kind = "cls", !.pos = <<"p">>, !.npd = 1, !.dflt = {<<"p", D("p")>>}, !.api = "register" ]
SerT2 == [ Base EXCEPT !.sel = <<"aa","T">>, !.kind = "cls", !.pos = <<"p">>, !.npd = 1, !.dflt = {<<"p", D("p")>>}, !.api = "external" ]
SerM1 == [ Base EXCEPT !.sel = <<"x","T","s">>, !.kind = "meth", !.pos = <<"p">>, !.npd = 1, !.dflt = {<<"p", D("p")>>}, !.api = "register" ]
SerM2 == [ Base EXCEPT !.sel = <<"aa","T","s">>, !.kind = "meth", !.pos = <<"p","q">>, !.npd = 2, !.dflt = {<<"p", D("p")>>, <<"q", D("q")>>}, !.api = "register" ]
SerM3 == [ Base EXCEPT !.sel = <<"x","T","u">>, !.kind = "meth", !.pos = <<"q">>, !.npd = 1, !.dflt = {<<"q", D("q")>>}, !.api = "register", !.allow = {"q"} ]
\* a third module whose last component is m (three imports competing for one name under dynamic registration)
SerX == [ Base EXCEPT !.sel = <<"x","m","k">>, !.pos = <<"p">>, !.npd = 1, !.dflt = {<<"p", D("p")>>}, !.api = "external" ]
SerConfs == {SerA, SerB, SerC, SerD, SerE, SerE2, GinMacro, SerT1, SerT2, SerM1, SerM2, SerM3, SerX}
SerRegs0 == { {SerA, SerB, SerC, SerD, SerE, GinMacro, SerX}, {SerA, SerD, GinMacro}, {SerB, SerC, SerE, GinMacro}, {SerD, SerE, SerE2, GinMacro} }
SerRegsM == { {SerA, SerD, GinMacro, SerT1, SerT2, SerM1, SerM2, SerM3}, {SerD, SerE, GinMacro, SerT1, SerM1, SerM3} }
SerRegs == SerRegs0 \cup SerRegsM
SerValsM == { L1, N1, R(<<"x","Gee">>, <<>>, "call"), <<"list", <<L1, N1>>>> }
SerVals == { L1, L2, <<"lit","3">>, <<"lit", "None">>, <<"lit", "empty">>, N1, R(<<"gin","macro">>, <<"W">>, "bare"), <<"nonlit","n2">>, R(<<"x","Gee">>, <<>>, "call"), R(<<"x","Gee">>, <<"a","b">>, "bare"),
             Pct(<<"W">>), <<"list", <<L1, <<"dict", << <<L2, <<"tuple", <<R(<<"x","Gee">>, <<>>, "call")>>>>>> >>>>>>>>,
             <<"list", <<L1, N1>>>>, <<"tuple", <<>>>>, <<"dict", <<>>>> }
SerFilter(sc, c, v) ==
  \* a reference can only be written to a registered name
  /\ \A r \in Flatten(v) : Tag(r) = "ref" => \E t \in reg : t.sel = r[2]
  /\ \/ (c.sel # <<"gin","macro">> /\ c.sel # <<"x","Gee">>)
     \/ (c.sel = <<"x","Gee">> /\ v \in {L1, L2, N1})
     \/ (c.sel = <<"gin","macro">> /\ v \in {L1, L2, N1, R(<<"x","Gee">>, <<>>, "call")} /\ Len(sc) = 1)    \* N1: a macro without literal form
NamesSer == <<"p", "q", "value", "z">>

------------------------------------------------------------------------------
(* C08 API half: names that become ambiguous when a later registration arrives *)
SpA == [ Base EXCEPT !.sel = <<"m","f">>, !.pos = <<"p">>, !.npd = 1, !.dflt = {<<"p", D("p")>>} ]
SpB == [ Base EXCEPT !.sel = <<"n","f">>, !.pos = <<"p">>, !.npd = 1, !.dflt = {<<"p", D("p")>>}, !.api = "external" ]
SpC == [ Base EXCEPT !.sel = <<"n","m","f">>, !.kind = "cls", !.pos = <<"p">>, !.npd = 1, !.dflt = {<<"p", D("p")>>}, !.api = "register" ]
SpK == [ Base EXCEPT !.sel = <<"m","K">>, !.kind = "cls", !.pos = <<"p">>, !.npd = 1, !.dflt = {<<"p", D("p")>>}, !.api = "register" ]
SpM == [ Base EXCEPT !.sel = <<"m","K","s">>, !.kind = "meth", !.pos = <<"p">>, !.npd = 1, !.dflt = {<<"p", D("p")>>}, !.api = "register" ]
SpConfs == {SpA, SpB, SpC, SpK, SpM}
SpRegs == {{SpA}, {SpA, SpB}, {SpA, SpK, SpM}}
SpFresh == {SpB, SpC}
SpHooks == {
  [id |-> "h1", rets |-> {HookKey(<<>>, <<"f">>, "p", L1)}, raises |-> FALSE],
  [id |-> "h2", rets |-> {HookKey(<<>>, <<"m","f">>, "p", L2)}, raises |-> FALSE],
  [id |-> "h3", rets |-> {HookKey(<<"a">>, <<"n","f">>, "p", L2)}, raises |-> FALSE] }
Spellings == { <<"f">>, <<"m","f">>, <<"n","f">>, <<"n","m","f">>, <<"x","f">>, <<"s">>, <<"K","s">>, <<"m","K","s">>, <<"m","s">> }

\* C07's replay clause speaks about a fixed configuration followed by calls
BindsThenCalls == (okeys # {}) => (out.op # "Bind")
OperBound == Cardinality(okeys) <= 2

ConstsBound == Cardinality(consts) <= 2

LockConfs == {LockF, LockG, LockH}
\* LockG2 re-registers an existing full name (with another object): rejected - by the lock first
LockG2 == [ LockG EXCEPT !.deny = {"p"} ]
LockFresh == {LockH, LockG2}
HooksBound == Len(hooks) <= 2
BV1 == {L1}
NamesPQ == <<"p", "q">>
BV12 == {L1, L2}
\* with values that are false / None in Python (a bound value is a value, whatever its truth)
LZero == <<"lit", "zero">>
BV12F == {L1, L2, LNone, LZero}
\* with a literal that the adapter may concretise as a mutable container (the consumer mutates what it receives)
BV123 == {L1, L2, <<"lit", "3">>, <<"list", <<L1, L2>>>>}
Names6 == <<"k", "p", "q", "self", "value", "z">>
Names8 == <<"args", "k", "kw", "p", "q", "self", "value", "z">>
=============================================================================
