SPECIFICATION Spec
CONSTANTS
  Names <- QNames
  Queries <- QQueries
  Handles = {"h1","h2"}
  FirstHandle = "h1"
  Values = {1,2}
  DevMinimalRoot = FALSE
CONSTRAINT ExportConstraint
CHECK_DEADLOCK FALSE
