SPECIFICATION Spec
CONSTANTS
  Names <- VNames
  Queries <- VNames
  Handles = {"h1","h2"}
  FirstHandle = "h1"
  Values = {1,2}
  DevMinimalRoot = FALSE
INVARIANT C08_TreeIsMap
INVARIANT C08_Matching
INVARIANT C08_GetMatch
INVARIANT C08_Minimal
PROPERTY C08_CopyIndependent
CHECK_DEADLOCK FALSE
