SPECIFICATION Spec
CONSTANTS
  Threads <- T2
  Programs <- P2
  LockOper = TRUE
  LockSingletons = FALSE
INVARIANT C18_NoFailure
INVARIANT C18_Sequential
INVARIANT C18_Once
INVARIANT C09_Private
CHECK_DEADLOCK FALSE
