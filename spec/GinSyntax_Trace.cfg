SPECIFICATION TSpec
CONSTANTS
  Alphabet = {}
  MaxLen = 0
CONSTRAINT Verdict
CHECK_DEADLOCK FALSE
