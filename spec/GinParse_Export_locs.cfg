SPECIFICATION Spec
CONSTANTS
  Known <- KnownSet
  Ambiguous <- Amb
  Modules = {"gvmod_ok"}
  Templates <- TplLocs
  FileNames <- Files3
  MaxPerFile <- MaxLocs
  SkipForms <- SkipFalse
  RegLogs <- RegLogsAll
  EntryForms <- Entries
  EntryBinding <- EntryB
  Readers <- Rdrs
  PresentChoices <- PresentsLocs
CONSTRAINT ExportAll
INVARIANT C14_C16_Flatten
INVARIANT C14_Resolve
INVARIANT C14_Entry
CHECK_DEADLOCK FALSE
