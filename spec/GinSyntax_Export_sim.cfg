SPECIFICATION Spec
CONSTANTS
  Alphabet = {"n", "s", "e", "y", "k", "x", "-", "[", "]", "(", ")", "{", "}", ",", ":", "@", "%", "nl"}
  MaxLen = 7
CONSTRAINT ExportAll
CHECK_DEADLOCK FALSE
