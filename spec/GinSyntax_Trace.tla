--------------------------- MODULE GinSyntax_Trace ---------------------------
(* Code -> specification for the parser.  $TRACE_FILE holds a JSON array of cases recorded from the
   real parser: [kinds, outcome, shape] where kinds is the CPython token stream of a generated text
   abstracted to GinSyntax token kinds, outcome is "ok" / "err" as observed on the real parser and
   shape the observed value's shape.  For every case the specification's parser (and the reference
   grammar) must agree with what the real code did; one verdict line per case. *)
EXTENDS GinSyntax, Json, IOUtils

Cases == JsonDeserialize(IOEnv.TRACE_FILE)

VARIABLE idx
tvars == <<toks, idx>>

RECURSIVE ShapeOf(_)
ShapeOf(v) ==
  CASE v[1] \in {"num", "neg"} -> <<"numlike">>
    [] v[1] \in {"str", "bytes", "const", "macro"} -> <<v[1]>>
    [] v[1] = "ref" -> <<"ref", v[2]>>
    [] v[1] \in {"list", "tuple"} -> <<v[1], [i \in 1..Len(v[2]) |-> ShapeOf(v[2][i])]>>
    [] v[1] = "dict" -> <<"dict-n", Len(v[2])>>

RECURSIVE SameShape(_, _)
SameShape(w, g) ==
  IF w[1] = "dict-n" /\ g[1] = "dict-n" THEN (w[2] = 0 /\ g[2] = 0) \/ (g[2] >= 1 /\ g[2] <= w[2])
  ELSE IF w[1] \in {"list", "tuple"} /\ g[1] = w[1]
       THEN Len(w[2]) = Len(g[2]) /\ \A i \in 1..Len(w[2]) : SameShape(w[2][i], g[2][i])
  ELSE w = g

CaseOK(c) ==
  LET T == c[1]
      p == ParseStmt(T)
      D == DenStmt(T)
  IN /\ (p[1] = "ok") <=> (c[2] = "ok")
     /\ (p[1] = "ok" => SameShape(ShapeOf(p[2]), c[3]))
     /\ (~NlAfterSigil(T) => ((p[1] = "ok") <=> (D # {})) /\ Cardinality(D) <= 1)

TInit == toks = <<>> /\ idx = 1
TNext == idx <= Len(Cases) /\ idx' = idx + 1 /\ UNCHANGED toks
TSpec == TInit /\ [][TNext]_tvars

Verdict == idx > Len(Cases) \/ PrintT(<<"CASE", idx, CaseOK(Cases[idx])>>)
=============================================================================
