SPECIFICATION Spec
CONSTANTS
  Confs <- ReqShapes
  InitRegs <- ReqRegs
  ScopeNames = {"a", "ab"}
  MaxScopeDepth = 2
  MaxStack = 2
  BindVals <- BV12
  MaxBindings = 2
  Enabled = {"Bind", "EnterScope", "ExitScope"}
  NameOrder <- Names6
  HookUniverse = {}
  BindApis = {"tuple"}
  FreshConfs = {}
  ConstNames = {}
  BindFilter <- AnyBind
  ConstVals = {}
  QuerySpellings = {}
  CallMaxExtra = 1
  CallExtraKw = {"z"}
  CallsWithReq = TRUE
  DevKwEval = FALSE
VIEW ViewStore
INVARIANT C10_Required
INVARIANT C10_RegisterReject
CHECK_DEADLOCK FALSE
