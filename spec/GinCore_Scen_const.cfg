SPECIFICATION Spec
CONSTANTS
  Confs <- MacConfs
  InitRegs <- MacRegs
  ScopeNames <- MacScopeNames
  MaxScopeDepth = 1
  MaxStack = 1
  BindVals <- MacPctVals
  MaxBindings = 3
  Enabled = {"Bind", "DefineConstant", "Interactive", "QueryConst"}
  NameOrder <- NamesMac
  HookUniverse = {}
  BindApis = {"text"}
  FreshConfs = {}
  BindFilter <- MacPctFilter
  ConstVals <- MacConstVals1
  QuerySpellings = {}
  ConstNames <- MacConstNames
  CallMaxExtra = 0
  CallExtraKw = {}
  CallsWithReq = FALSE
  DevKwEval = FALSE
  ScenKind = "const"
VIEW ViewNoOutUnordered
CONSTRAINT ExportScen
CHECK_DEADLOCK FALSE
