SPECIFICATION SSpec
CONSTANTS
  Alphabet = {}
  MaxLen = 0
  Templates <- AllTemplates
  MaxStmts = 2
INVARIANT C03_RoundTrip
CHECK_DEADLOCK FALSE
