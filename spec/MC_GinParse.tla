----------------------------- MODULE MC_GinParse -----------------------------
EXTENDS GinParse

L(x) == <<"lit", x>>
KnownSet == { [sel |-> "f", params |-> {"p", "q"}, deny |-> {"q"}], [sel |-> "g", params |-> {"p"}, deny |-> {}] }
B(scope, sel, param, val) == [t |-> "bind", scope |-> scope, sel |-> sel, param |-> param, val |-> val, lines |-> 1]

Tpl == {
  B("", "f", "p", L("1")), B("", "f", "p", L("2")), B("a", "f", "p", L("1")),
  B("", "u", "p", L("1")),                                   \* unknown configurable (listed in the skip list)
  B("", "w", "p", L("1")),                                   \* unknown configurable (not listed)
  B("", "f", "z", L("1")),                                   \* unknown parameter
  B("", "f", "q", L("1")),                                   \* denylisted parameter
  B("", "g", "p", <<"ref", "u">>),                           \* reference to an unknown configurable
  B("", "g", "p", <<"ref", "f">>),
  B("", "g", "p", <<"ref", "f", "a/b">>),                    \* a known configurable referenced through two scope levels
  B("", "g", "p", <<"ref", "u", "a/b">>),
  [t |-> "macro", name |-> "m", val |-> L("1"), lines |-> 1],
  [t |-> "block", scope |-> "a", sel |-> "f", members |-> << <<"p", L("2")>>, <<"q", L("1")>> >>, lines |-> 3],   \* 2nd member denied
  [t |-> "block", scope |-> "", sel |-> "u", members |-> << <<"p", L("1")>> >>, lines |-> 2],
  [t |-> "block", scope |-> "", sel |-> "g", members |-> << <<"p", <<"ref", "w">>>> >>, lines |-> 2],
  [t |-> "block", scope |-> "b", sel |-> "f", members |-> << <<"p", L("3")>> >>, lines |-> 2],     \* a block nothing is wrong with
  B("", "h", "p", L("1")), B("", "g", "p", <<"ref", "h">>),          \* h names two registered configurables
  [t |-> "block", scope |-> "", sel |-> "h", members |-> << <<"p", L("1")>> >>, lines |-> 2],
  [t |-> "import", module |-> "gvmod_ok", lines |-> 1],
  [t |-> "import", module |-> "gvmod_missing", lines |-> 1],
  [t |-> "include", file |-> "a", lines |-> 1],
  [t |-> "include", file |-> "b", lines |-> 1],
  [t |-> "include", file |-> "nofile", lines |-> 1],
  [t |-> "include", file |-> "p", lines |-> 1],            \* a package-relative name (resolved through the Python path)
  [t |-> "syntax", lines |-> 1] }

TplQuick == {
  B("", "h", "p", L("1")), B("", "g", "p", <<"ref", "h">>),
  B("", "f", "p", L("1")), B("", "f", "p", L("2")), B("", "u", "p", L("1")), B("", "f", "q", L("1")), B("", "g", "p", <<"ref", "u">>),
  [t |-> "block", scope |-> "a", sel |-> "f", members |-> << <<"p", L("2")>>, <<"q", L("1")>> >>, lines |-> 3],
  [t |-> "block", scope |-> "", sel |-> "u", members |-> << <<"p", L("1")>> >>, lines |-> 2],
  [t |-> "block", scope |-> "b", sel |-> "f", members |-> << <<"p", L("3")>> >>, lines |-> 2],
  [t |-> "import", module |-> "gvmod_missing", lines |-> 1],
  [t |-> "include", file |-> "a", lines |-> 1], [t |-> "include", file |-> "b", lines |-> 1],
  [t |-> "include", file |-> "nofile", lines |-> 1], [t |-> "include", file |-> "p", lines |-> 1], [t |-> "syntax", lines |-> 1] }
\* the include-heavy family: overriding bindings around (repeated) includes
TplDiamond == { B("", "f", "p", L("1")), B("", "f", "p", L("2")), B("a", "f", "p", L("1")), [t |-> "import", module |-> "gvmod_ok", lines |-> 1],
  [t |-> "include", file |-> "a", lines |-> 1], [t |-> "include", file |-> "b", lines |-> 1] }
Amb == {"h"}
SkipFalse == { [mode |-> "false", names |-> {}] }
Skips == { [mode |-> "false", names |-> {}], [mode |-> "true", names |-> {}], [mode |-> "list", names |-> {"u", "h"}] }
Files3 == {"root", "a", "b", "p"}
Max3 == [n \in Files3 |-> CASE n = "root" -> 2 [] n = "a" -> 1 [] n = "b" -> 0 [] n = "p" -> 1]
MaxDiamond == [n \in Files3 |-> CASE n = "root" -> 3 [] n = "a" -> 1 [] n = "b" -> 1 [] n = "p" -> 0]
Max3T == [n \in Files3 |-> CASE n = "root" -> 3 [] n = "a" -> 2 [] n = "b" -> 1 [] n = "p" -> 1]
RegLogs1 == { <<"L1", "L2">> }
\* the location family: other orders, a location registered again, the current directory registered explicitly
RegLogsAll == { <<"L1", "L2">>, <<"L2", "L1">>, <<"L1", "L2", "L1">>, <<"L2", "L1", "L2">>, <<"", "L1", "L2">>, <<"L1", "", "L2", "">> }
EForm(fs, b, fin) == [files |-> fs, bindings |-> b, finalize |-> fin]
Entries == << EForm(<<"root", "a">>, "one", TRUE), EForm(<<>>, "none", TRUE), EForm(<<"root">>, "emptylist", FALSE),
              EForm(<<>>, "emptystr", TRUE), EForm(<<"a", "root">>, "none", TRUE), EForm(<<>>, "one", FALSE),
              EForm(<<"root">>, "emptystr", TRUE), EForm(<<>>, "emptylist", TRUE),
              EForm(<<"root", "nofile", "a">>, "one", TRUE) >>            \* a file that cannot be read, not the first one
EntryB == B("", "g", "p", L("from-bindings"))
Rdrs == <<"r1", "pkg", "r2">>        \* open(), the Python-path resource reader, a custom reader
\* root in the current directory; a and b placed so that order matters
Present1 == { <<"", "r1", "root">>, <<"", "r1", "a">>, <<"", "r1", "b">>, <<"", "pkg", "p">> }
Present2 == { <<"", "r1", "root">>, <<"L1", "r2", "a">>, <<"L2", "r1", "a">>, <<"L2", "r2", "b">>, <<"L1", "r1", "b">>, <<"", "pkg", "p">>, <<"L1", "r2", "p">> }
Presents == { Present1, Present2 }
Presents1 == { Present1 }
\* a also sits in the current directory and in both locations; b in both locations through different readers
Present3 == { <<"", "r1", "root">>, <<"L1", "r1", "a">>, <<"L2", "r1", "a">>, <<"L2", "r1", "b">>, <<"L1", "r2", "b">> }
Present4 == { <<"", "r1", "root">>, <<"", "r1", "a">>, <<"L1", "r1", "a">>, <<"L2", "r2", "b">>, <<"L1", "r1", "b">> }
PresentsLocs == { Present2, Present3, Present4 }
TplLocs == { B("", "f", "p", L("1")), [t |-> "include", file |-> "a", lines |-> 1], [t |-> "include", file |-> "b", lines |-> 1],
             [t |-> "include", file |-> "nofile", lines |-> 1] }        \* a file found first whose own include cannot be read
MaxLocs == [n \in Files3 |-> CASE n = "root" -> 2 [] n = "a" -> 1 [] n = "b" -> 1 [] n = "p" -> 0]
=============================================================================
