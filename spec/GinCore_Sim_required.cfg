SPECIFICATION Spec
CONSTANTS
  Confs <- ReqShapes
  InitRegs <- ReqRegs
  ScopeNames = {"a", "ab"}
  MaxScopeDepth = 2
  MaxStack = 3
  BindVals <- BV12F
  MaxBindings = 5
  Enabled = {"Bind", "EnterScope", "ExitScope", "Call"}
  NameOrder <- Names6
  HookUniverse = {}
  BindApis = {"tuple"}
  FreshConfs = {}
  ConstNames = {}
  BindFilter <- AnyBind
  ConstVals = {}
  QuerySpellings = {}
  CallMaxExtra = 1
  CallExtraKw = {"z"}
  CallsWithReq = TRUE
  DevKwEval = FALSE
CONSTRAINT ExportConstraint
CHECK_DEADLOCK FALSE
