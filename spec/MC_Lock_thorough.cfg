SPECIFICATION Spec
CONSTANTS
  Confs <- LockConfs
  InitRegs <- LockRegs
  ScopeNames = {"a"}
  MaxScopeDepth = 1
  MaxStack = 1
  BindVals <- BV1
  MaxBindings = 3
  Enabled = {"Bind", "Finalize", "Unlock", "RegisterHook", "Register", "Clear"}
  NameOrder <- NamesPQ
  HookUniverse <- Hooks
  BindApis = {"tuple"}
  FreshConfs <- LockFresh
  ConstNames = {}
  BindFilter <- AnyBind
  ConstVals = {}
  QuerySpellings = {}
  CallMaxExtra = 1
  CallExtraKw = {"z"}
  CallsWithReq = FALSE
  DevKwEval = FALSE
VIEW ViewNoOutUnordered
CONSTRAINT HooksBound
INVARIANT C11_StoreValid
PROPERTY C12_LockedIsValidatedA
PROPERTY C20_PristineA
PROPERTY C12_Guard
PROPERTY C12_UnlockRestores
PROPERTY C12_FinalizeAtomic
PROPERTY C12_FinalizeLocks
PROPERTY C12_Twice
PROPERTY C12_Conflict
PROPERTY C20_KeepsRegistryAndConstants
CHECK_DEADLOCK FALSE
