SPECIFICATION Spec
CONSTANTS
  Confs <- ClrConfs
  InitRegs <- ClrRegs
  ScopeNames = {"W", "s1"}
  MaxScopeDepth = 1
  MaxStack = 1
  BindVals <- ClrBindVals
  MaxBindings = 2
  Enabled = {"Bind", "Call", "Clear", "Finalize", "Unlock", "DefineConstant", "Interactive", "Import", "SingletonDirect"}
  NameOrder <- NamesClr
  HookUniverse = {}
  BindApis = {"tuple"}
  FreshConfs = {}
  BindFilter <- ClrFilter
  ConstVals <- MacConstVals
  QuerySpellings = {}
  ConstNames <- MacConstNames
  CallMaxExtra = 0
  CallExtraKw = {}
  CallsWithReq = FALSE
  DevKwEval = FALSE
INVARIANT C20_Succeeds
INVARIANT C18_SingletonOnce
PROPERTY C20_PristineA
PROPERTY C20_KeepsRegistryAndConstants
CHECK_DEADLOCK FALSE
