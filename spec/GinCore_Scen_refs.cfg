SPECIFICATION Spec
CONSTANTS
  Confs <- RefConfs
  InitRegs <- RefRegs
  ScopeNames = {"a", "b"}
  MaxScopeDepth = 2
  MaxStack = 2
  BindVals <- RefBindVals
  MaxBindings = 1
  Enabled = {"Bind", "EnterScope", "ExitScope", "Call"}
  NameOrder <- NamesRefs
  HookUniverse = {}
  BindApis = {"tuple"}
  FreshConfs = {}
  BindFilter <- RefFilter
  ConstVals = {}
  QuerySpellings = {}
  ConstNames = {}
  CallMaxExtra = 0
  CallExtraKw = {}
  CallsWithReq = FALSE
  DevKwEval = FALSE
  ScenKind = "refcall"
VIEW ViewUnorderedNoOut
CONSTRAINT ExportScen
CHECK_DEADLOCK FALSE
