SPECIFICATION Spec
CONSTANTS
  Confs <- ScopeConfs
  InitRegs <- ScopeRegs
  ScopeNames = {"a", "b", "ab"}
  MaxScopeDepth = 4
  MaxStack = 6
  BindVals <- BV12
  MaxBindings = 3
  Enabled = {"Bind", "EnterScope", "ExitScope", "Call"}
  NameOrder <- NamesPQ
  HookUniverse = {}
  BindApis = {"tuple"}
  FreshConfs = {}
  ConstNames = {}
  BindFilter <- AnyBind
  ConstVals = {}
  QuerySpellings = {}
  CallMaxExtra = 1
  CallExtraKw = {"z"}
  CallsWithReq = FALSE
  DevKwEval = FALSE
CONSTRAINT ExportConstraint
CHECK_DEADLOCK FALSE
