SPECIFICATION Spec
CONSTANTS
  Threads <- T3
  Programs <- P3
  LockOper = TRUE
  LockSingletons = TRUE
INVARIANT C18_NoFailure
INVARIANT C18_Sequential
INVARIANT C18_Once
INVARIANT C09_Private
CHECK_DEADLOCK FALSE
