--------------------------- MODULE GinRegister_Sim ---------------------------
EXTENDS MC_GinRegister, TLCExt, IOUtils
ASSUME TLCSet(1, 0)
SimDepth == IF "SIM_DEPTH" \in DOMAIN IOEnv THEN atoi(IOEnv.SIM_DEPTH) ELSE 7
ExportConstraint ==
  IF TLCGet("level") = SimDepth /\ TLCGet("stats").traces # TLCGet(1)
  THEN /\ TLCSet(1, TLCGet("stats").traces)
       /\ JsonSerialize(IOEnv.OUT_DIR \o "/b" \o ToString(TLCGet(1)) \o ".json", Trace)
  ELSE TRUE
=============================================================================
