SPECIFICATION Spec
CONSTANTS
  Confs <- MacConfs
  InitRegs <- MacRegs
  ScopeNames <- MacScopeNames
  MaxScopeDepth = 1
  MaxStack = 1
  BindVals <- MacRefVals
  MaxBindings = 3
  Enabled = {"Bind", "Finalize"}
  NameOrder <- NamesMac
  HookUniverse = {}
  BindApis = {"text"}
  FreshConfs = {}
  BindFilter <- MacRefFilter
  ConstVals = {}
  QuerySpellings = {}
  ConstNames = {}
  CallMaxExtra = 0
  CallExtraKw = {}
  CallsWithReq = FALSE
  DevKwEval = FALSE
  ScenKind = "macrofin"
CONSTRAINT ExportScen
CHECK_DEADLOCK FALSE
