SPECIFICATION TSpec
CONSTANTS
  Confs <- TraceConfs
  InitRegs <- TraceRegs
  ScopeNames = {"a"}
  MaxScopeDepth = 99
  MaxStack = 99
  BindVals = {}
  MaxBindings = 99
  Enabled = {"Bind", "EnterScope", "ExitScope", "Call", "Clear", "Finalize", "Unlock", "DefineConstant", "Interactive", "Import", "SingletonDirect"}
  NameOrder <- TraceNames
  HookUniverse = {}
  BindApis = {"tuple"}
  FreshConfs = {}
  BindFilter <- AnyBind
  ConstVals = {}
  QuerySpellings = {}
  ConstNames <- MacConstNames
  CallMaxExtra = 0
  CallExtraKw = {}
  CallsWithReq = FALSE
  DevKwEval = FALSE
CONSTRAINT Progress
INVARIANT C11_StoreValid
INVARIANT C07_Never
INVARIANT C18_SingletonOnce
POSTCONDITION Verdicts
CHECK_DEADLOCK FALSE
