---------------------------- MODULE GinStmt_Trace ----------------------------
(* Code -> specification: $TRACE_FILE holds cases [kinds, stmts] recorded from the real code: the CPython
   token stream of a generated config text abstracted to GinStmt token kinds, and the statement stream
   the real ConfigParser produced for it (or [{"t":"err"}]).  The specification parser must produce the
   same stream; one verdict line per case. *)
EXTENDS MC_GinStmt, Json, IOUtils

Cases == JsonDeserialize(IOEnv.TRACE_FILE)
VARIABLE idx
tvars == <<svars, idx>>

RECURSIVE ValShape(_)
ValShape(v) ==
  CASE v[1] \in {"num", "neg"} -> <<"numlike">>
    [] v[1] \in {"str", "bytes", "const", "macro"} -> <<v[1]>>
    [] v[1] = "ref" -> <<"ref", v[2]>>
    [] v[1] \in {"list", "tuple"} -> <<v[1], [i \in 1..Len(v[2]) |-> ValShape(v[2][i])]>>
    [] v[1] = "dict" -> <<"dict-n", Len(v[2])>>

RECURSIVE SameShape(_, _)
\* duplicate dict keys collapse in a real dict: only an upper bound on its size is a matter of shape
SameShape(w, g) ==
  IF w[1] = "dict-n" /\ g[1] = "dict-n" THEN (w[2] = 0 /\ g[2] = 0) \/ (g[2] >= 1 /\ g[2] <= w[2])
  ELSE IF w[1] \in {"list", "tuple"} /\ g[1] = w[1]
       THEN Len(w[2]) = Len(g[2]) /\ \A i \in 1..Len(w[2]) : SameShape(w[2][i], g[2][i])
  ELSE w = g

SameStmt(s, r) ==     \* s: specification statement, r: recorded statement (JSON record)
  /\ s.t = r.t
  /\ CASE s.t = "bind" -> s.scope = r.scope /\ s.selector = r.selector /\ s.arg = r.arg /\ SameShape(ValShape(s.val), r.val)
       [] s.t = "block" -> s.scope = r.scope /\ s.selector = r.selector
       [] s.t = "import" -> s.module = r.module /\ s.isfrom = r.isfrom /\ s.alias = r.alias
       [] OTHER -> TRUE

CaseOK(c) ==
  LET p == ParseAll(c[1]) IN
  /\ Len(p) = Len(c[2])
  /\ \A i \in 1..Len(p) : SameStmt(p[i], c[2][i])

TInit == SInit /\ idx = 1
TNext == idx <= Len(Cases) /\ idx' = idx + 1 /\ UNCHANGED svars
TSpec == TInit /\ [][TNext]_tvars
Verdict == idx > Len(Cases) \/ PrintT(<<"CASE", idx, CaseOK(Cases[idx])>>)
=============================================================================
