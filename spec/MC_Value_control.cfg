SPECIFICATION Spec
CONSTANTS
  Alphabet = {"n", "(", ")", ","}
  MaxLen = 4
INVARIANT NoOneTuple
CHECK_DEADLOCK FALSE
